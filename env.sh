# Sourced by setup.sh / run.sh. Offline Go environment for building the harness against /repo's working tree.
TC=/root/go/pkg/mod/golang.org/toolchain@v0.0.1-go1.24.0.linux-amd64
if [ -x "$TC/bin/go" ]; then
  export PATH="$TC/bin:$PATH"
  export GOTOOLCHAIN=local
fi
export GOFLAGS=-mod=mod
export GOPROXY=off
unset GOSUMDB
export GONOSUMDB='*' GONOSUMCHECK=1 GOFLAGS=-mod=mod
export CGO_ENABLED=1
export LOG_LEVEL=fatal
export VERIF_ROOT="$(cd "$(dirname "${BASH_SOURCE[0]}")" && pwd)"
