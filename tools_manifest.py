#!/usr/bin/env python3
# Regenerates MANIFEST.json from the table below (kept next to the checks so that both stay in step).
import json, subprocess
ALL = ["C%02d" % i for i in range(1, 21)]
CHECKS = {}
def chk(pid, cat, text, note, tech, ref):
    CHECKS[pid] = {"property_id": pid, "quick_cmd": f"./run.sh {pid} quick", "thorough_cmd": f"./run.sh {pid} thorough",
        "evidence_file": f"/verif/evidence/{pid}.json", "replay_cmd_template": f"./run.sh {pid} --replay {{path}}", "engine": "vcheck",
        "level_claimed": {"category": cat, "text": text, "design_ref": ref}, "level_note": note, "technique": tech}

DIFF = "runtime differential oracle vs reference model over seeded workloads"
chk("C02", "exploration",
    "Differential runtime monitoring: the real store search path (both parsers, NOT propagation, eval tree, merge nodes, LID borders, limit/total loop) runs on seeded corpora x query trees x ranges x orders x limits and every response is compared with a naive reference model. Held on the executions explored, nothing more.",
    "Trusts the naive model in /verif/internal/model and Go's runtime; tokens supplied explicitly (tokenizers are C10/C11); from/to < 2^62.", DIFF, "DESIGN.md 2/C02")
chk("C04", "exploration",
    "The real streaming Fetch handler (chunk sizing goroutine, per-fraction grouping, sealed ID-table binary search, active positions map) is driven with seeded ID lists mixing stored and unknown IDs of every kind named in the property; every stream entry is compared with the stored bytes and the worker process must stay alive. A dead worker is attributed to the in-flight case through a write-ahead record.",
    "Wrong hints for stored IDs are treated as client error (only position/ID/liveness judged). Lists up to 3000 IDs in quick, up to 100k in thorough.", "runtime oracle on the fetch stream + process-liveness monitor (child worker, write-ahead case log)", "DESIGN.md 2/C04")
chk("C05", "exploration",
    "Metamorphic + model check at run time: the same corpus is laid out over shards x replicas x 1..6 overlapping fractions per replica by seeded rules, searched through the real proxy search ingestor (fan-out, QPR merge, pagination) and directly at each store with FractionsPerIteration 1/2/3/all; every page of a full page walk, totals, histograms and aggregations are compared with the model over the union corpus.",
    "Replicas hold equal documents; totals/histograms/aggregations are only judged for layouts that partition the corpus.", DIFF + " (layout metamorphism, page walks)", "DESIGN.md 2/C05")
chk("C06", "exploration",
    "Every aggregation function, with/without group-by and time bins, and histograms are computed by the real stores and the real proxy merge and compared with values computed directly from the matching documents; the per-fraction partial results of each case are additionally merged with the real seq.MergeQPRs in 6 seeded orders/groupings which must all agree with the model.",
    "Float sums within 1e-9 relative tolerance; single-valued numeric fields; not-exists compared per group.", DIFF + " + merge-order permutation monitor", "DESIGN.md 2/C06")

chk("C03", "exploration",
    "Metamorphic + model check at run time over data shapes built to straddle the on-disk block constants (>64Ki postings per token, postings ending at a LID-block edge, continued posting lists over 2-3 blocks, 4095/4096/4097/9000 IDs, token dictionaries of 16383/16384/16385 bytes and of several blocks): the same battery of searches, histograms, aggregations and fetch lists is answered by the active fraction, the freshly sealed one (preloaded tables), after a cache reset, after reopening from files without and with .frac-cache, and with a few-KiB cache; every answer must equal the model.",
    "Block constants are compile-time, shapes are built to hit them; seal configuration (sorted docs on/off, doc block size, zstd level) is seeded per shape.", DIFF + " across fraction forms", "DESIGN.md 2/C03")
chk("C14", "exploration",
    "Soundness monitors for the pruning predicates: util.Bitmask.HasBitsIn against brute force (every bit set up to 12 bits, sampled to 22), seq.MIDsDistribution directly and after its JSON round trip for every from/to offset and bucket size in a bound, frac.Info.BuildDistribution/IsIntersecting for document sets 10 min..30 h before creation; plus end-to-end: real fractions holding documents hours older than now are sealed, reloaded through the index header and through .frac-cache and searched/fetched with ranges on and off minute and document borders against the model.",
    "End-to-end part positions the corpus relative to the wall clock (seq-db stamps fraction creation itself).", "soundness oracle on pruning predicates (small-scope enumeration + seeded) and " + DIFF, "DESIGN.md 2/C14")
chk("C17", "exploration",
    "Seeded re-delivery histories (whole-bulk repeats, partial overlaps at start/middle/end/interleaved, the same document several times, repeats racing with the original from several goroutines, repeats after a rotation) are executed against a real store built with the race detector; a battery of searches, histograms, aggregations, fetches and the fractions' DocsTotal is compared with a set-semantics model in active form, after sealing and after a restart.",
    "Where a repeat landed in another fraction only 'listed once' and the fetched bytes are judged, as the statement says.", DIFF + " (set semantics) + Go race detector", "DESIGN.md 2/C17")
chk("C20", "exploration",
    "Generated JSON objects (escapes, unicode, every number notation, nested containers, empty object) are stored and read back through the store's fetch filter and through the proxy with a '| fields' / '| fields except' pipe; encoding/json, comparing numbers as exact rationals, checks validity, the exact key set and value equality, byte identity without a pipe and an unchanged ID sequence.",
    "No duplicate keys; encoding/json is the independent reader.", "runtime oracle with an independent JSON reader over seeded documents and field lists", "DESIGN.md 2/C20")

chk("C10", "exploration",
    "Request bodies built from seeded line sequences (generated JSON objects of every shape, non-object values, blank lines, CRLF, missing trailing newline, lines around the max-document-size / reader-buffer limit, clearly malformed and grey-zone JSON; plain or gzip) are served by the real BulkHandler.ServeHTTP and bulk.Ingestor into a recording storage client (one third forwarded to a real store and fetched back): status, created-item count, at most one storage call, byte-exact documents in order and per-document meta sizes are judged; the time rule is checked through Ingestor.ProcessDocuments with an explicit request time for every field name, format and offsets exactly at and 1 ms beyond the allowed drift.",
    "Lines of max-3..max bytes are a don't-care band; only clearly malformed lines must reject the request; one max-document-size per worker process.", "runtime oracle on the ingestion path (recording storage client + independent JSON/time readers)", "DESIGN.md 2/C10")
chk("C12", "exploration",
    "Totality monitor: grammar-derived and mutated byte strings naming fields of every mapping type (and a nil mapping) go through ParseSeqQL, ParseQuery, ParseAggregationFilter and the store's Search handler on a live store; a panic at the call boundary or a dead worker refutes, a hang is caught by the watchdog with the in-flight string recorded. Meaning monitor: every boolean tree up to 5 (quick) / 7 (thorough) nodes over 3 atoms, plus seeded trees with in-lists and multi-word text atoms, is rendered with minimal, redundant and mixed parentheses in both languages, parsed, and the returned AST (AND/OR/NAND/NOT after NOT propagation) is evaluated over all truth assignments against the written expression.",
    "NAND(a,b) read as (not a) and b (the AST's own dump; executed end-to-end by C02). 'Never loops' is bounded progress under a watchdog.", "runtime totality monitor (panic/liveness) + exhaustive small-scope truth-table oracle on parsed ASTs", "DESIGN.md 2/C12")
chk("C13", "exploration",
    "Small-scope exhaustive runtime oracle on the real matching code: every pattern over {a,b,*} x every token over {a,b} up to length 4 (quick) / 6 (thorough) through pattern.Search on unordered and ordered providers vs a DP glob matcher; every range over a value set (open/closed/unbounded ends) vs the numeric-if-all-given-ends-numeric rule; every sorted dictionary up to 5 tokens x every split into consecutive blocks through the real token.Table.SelectEntries + narrowing vs a scan of all tokens; seeded long strings and dictionaries up to 400 tokens.",
    "The ordered provider of part (c) serves tokens from memory; the block-loading provider is covered end-to-end by C03's multi-block dictionaries.", "exhaustive small-scope enumeration executed against the real code with a brute-force oracle", "DESIGN.md 2/C13")
chk("C18", "exploration",
    "Exhaustive management check (every assignment of <=6 caches to live / released in round 1 / released in round 2, ReleaseBuckets after each round, accounting equality and a Rotate+Cleanup bound check) plus concurrent model-based runs under the race detector: 2-8 callers and one maintenance goroutine over caches sharing a cleaner, seeded delays at hooks between the critical sections of Get/save/recover/Cleanup/ReleaseBuckets, loaders that yield, fail and panic, caches released and created while running; monitors check coherence of every returned value, error/panic delivery, accounted size = sum of live entries and the size bound at quiescent barriers, and that live caches stay managed.",
    "Usage protocol respected (no lookup on a released cache, maintenance calls from one goroutine). Hooks are compiled in with the verif tag.", "online invariant monitors at hooks + quiescent-point structural checks + Go race detector", "DESIGN.md 2/C18")

chk("C11", "exploration",
    "End-to-end findability monitor: documents with hostile field values (multi-byte case pairs whose lower-case form changes length, combining marks, non-ASCII digits/numbers, separators, wildcard characters, quotes, backslashes, invalid bytes, values at limit-1/limit/limit+1) are ingested through the real bulk.Ingestor (tokenizers, indexer, mapping incl. object, tags, multi-type and size-limited fields) into a real store; for every mapped field, queries are built from the field's own content by the statement's rule (whole value / each word / each leading path / existence) in every SeqQL quoting style and the legacy syntax and executed by the real parsers and search path; each must return the document. Over-limit values must be skipped or findable by their valid prefix, and every indexed token must be a (lower-cased) value, word, path cut or prefix of one.",
    "Case sensitivity and partial indexing are fixed per worker (process-global settings); nested fields not generated.", "runtime findability oracle (index side vs query side executed end-to-end)", "DESIGN.md 2/C11")

chk("C09", "fault_enumeration",
    "The real bulk.SeqDBClient (retry loop, per-replica written-status bookkeeping, shard shuffling, circuit breakers) runs over recording fake store clients whose k-th call per host succeeds, fails or times out by script; scripts are exhaustive over {ok,error}^(hosts x BulkMaxTries) for topologies up to 2x2 hot + 1x1 long-term (evenly thinned in the quick tier, complete in thorough) and seeded beyond incl. timeouts and a worker group whose breakers open. An offline checker over the recorded call log demands: acknowledged => some hot shard has, on every replica, a successful call carrying exactly the request payload, likewise in the long-term tier; no host sees more than BulkMaxTries calls.",
    "Shard order is shuffled by the client with the global PRNG, so the set of hosts reached is not replayable; the verdict is computed from the calls recorded in that run.", "offline checker over a recorded call log under scripted fault sequences (exhaustive small topologies + seeded)", "DESIGN.md 2/C09")
chk("C16", "fault_enumeration",
    "The real search.Ingestor (replica fail-over, special error codes, QPR merge, pagination, per-source fetch streams merged by position) runs over scripted fake stores that answer from the reference model; per-host behaviours: search ok/error/wants-old-data/too-many-fractions, fetch ok/error/break-after-k/missing/extra/reordered. Exhaustive over the search alphabet for topologies up to 2x2 (+1x1 long-term), seeded beyond and for fetch faults. The oracle is computed from the recorded responses: error, or IDs = page of the de-duplicated merge over the answering shards, partial flag iff a shard did not answer, long-term stores consulted on wants-old-data, document i = document of ID i or empty - and not empty when the delivering store's stream was flawless.",
    "Fake stores answer instantly; a panic caught at the call boundary counts as an error (the proxy has a recovery interceptor) and is tallied.", "runtime oracle over recorded responses under enumerated per-call faults", "DESIGN.md 2/C16")

chk("C01", "fault_enumeration",
    "Seeded crash/restart histories of 3-5 rounds against the real store in child processes: each round restarts the store on the same directory, verifies the whole shadow state (every acknowledged document fetched byte-identical, listed by _all_, found by its tokens; every unacknowledged bulk wholly present or wholly absent; no foreign ID; the store came up), ingests more bulks and crashes at the k-th hit of a write-path hook (before/after the docs write, after its fsync - the orphan docs block -, before/after the meta write, after its fsync before the ack) or exits cleanly; after every crash a power-loss variant truncates each file to a seeded length between its fsync-covered length and its size. An offline checker over the hook event log additionally demands docs write < docs fsync < meta write < meta fsync < ack for every acknowledged bulk.",
    "Crash = os.Exit in a hook; power loss = truncation of unsynced tails derived from fsync hook events; directory-entry durability not modelled; hooks sit where MANIFEST.hooks says.", "crash-point and torn-tail fault injection with a shadow-state oracle + offline ordering checker over the hook event log", "DESIGN.md 2/C01")

chk("C08", "fault_enumeration",
    "Per corpus a dry run of one seal counts the hits of every fault point (each sorted-docs block write/flush, each index block, registry and header write, sync, rename) and crash point (temp files created, mid-write, around each sync/rename, directory sync, publication, meta and docs removal). Then, each from a pristine copy of the pre-seal directory in a fresh process, the k-th hit of each fault point returns an I/O error and the process crashes at the k-th hit of each crash point (followed by truncation of every file no completed sync covers). After two restarts every document must be listed, found by its tokens and fetched byte-identical; an offline checker over the hook event log demands sync-before-rename, sync+rename+dir-sync of the index before any removal of .meta/.docs, and nothing published or removed after an injected fault.",
    "k is thinned evenly above 12 (quick) / 60 (thorough) hits per point; directory-entry durability not modelled.", "fault and crash-point enumeration with restart verification + offline file-order checker over the hook event log", "DESIGN.md 2/C08")
chk("C15", "fault_enumeration",
    "Seeded lifecycle histories on a store with a few-KiB fraction size, a retention limit of 4-8 fractions and a 3 ms maintenance loop (dozens of rotations, background seals and retention deletions per round), crashed at the k-th hit of lifecycle hooks (between the two file creations of a new active fraction, rotation, every rename/remove of sealed and active deletion, retention shift, .frac-cache temp written/renamed, seal publication, release), followed by power-loss variants (unsynced .docs/.meta tails truncated; .frac-cache stale, truncated, corrupt or deleted). A separate verification process with an idle maintenance loop checks after every restart: the store comes up; each bulk wholly served or wholly gone and byte-identical; bulks of one fraction share their fate; served acknowledged bulks form a suffix of the ingestion order; nothing seen gone reappears; fraction lists sampled while running are suffixes of the creation order.",
    "TotalSize >= 4 x FracSize and paced ingestion (retiring the fraction being written is outside the statement); which hook hit a crash lands on is scheduler dependent.", "crash-point fault injection over lifecycle histories with whole-or-gone / oldest-first oracles", "DESIGN.md 2/C15")

chk("C19", "fault_enumeration",
    "Store handlers with restart injection: per corpus (group values with '|', quotes, unicode; negative and fractional numbers) over 2-6 fractions a dry run counts the durable writes of one asynchronous search; then, from pristine copies in fresh processes, the store crashes after the k-th durable write, rename or sync for every k and before/after the request is marked done; after the restart the search is polled until done and its IDs, histogram and per-bin aggregation summaries are compared with the synchronous search of the restarted store, and the IDs with the model. The proxy library (1-3 shards) and the proxy's public StartAsyncSearch/FetchAsyncSearchResult handlers (vs ComplexSearch and the model) are driven with the same requests without restarts.",
    "No ingestion between start and finish; a request whose start call had not returned before the crash may be lost (tallied); rendered buckets compared for aggregations without interval only.", "crash-point enumeration over persisted partial results + differential comparison async vs sync vs model", "DESIGN.md 2/C19")

chk("C07", "exploration",
    "Concurrent runs against a real store built with the Go race detector: maintenance loop every 2-5 ms, few-KiB fractions (dozens of rotations and background seals per run), small cache with constant eviction, 2-8 writers with disjoint documents and 2-8 readers doing search -> immediate fetch (with and without hints), seeded delays at hooks between the index-update steps, the seal/rotate hand-over and the cache critical sections, GOMAXPROCS 2/4/16. Readers assert online that every returned ID was submitted, satisfies query and range, is strictly ordered and fetches to exactly its bytes; any error, panic (dead worker) or race report is a violation. After the writers finish, a battery of searches/histograms/fetches must equal the model while seals may still run, and again after stop and reopen.",
    "Schedules are sampled; the evidence counts rotations and seals that overlapped reader calls and hook hits per point. A stall is inconclusive (watchdog + goroutine dump).", "Go race detector + online reader assertions + quiescent differential vs model under seeded hook delays", "DESIGN.md 2/C07")

# additions made while validating the checks against seeded changes and mutants (DESIGN.md section 7)
ADD = {
 "C01": "A third of the rounds submit 2-6 bulks at once. Every 8th batch runs the ingest under strace and judges the order of pwrite64/fsync/acknowledgement on the syscalls themselves (counting invariants, sound under concurrent bulks), independent of the hooks.",
 "C02": "Half of the interleaved forms search between the bulks (judged against the prefix ingested so far); a many-fractions form (3-6 fractions, 1-2 fractions per iteration) covers the limit cut across iterations.",
 "C03": "Half of the batches seal two fractions one after the other in one process; a third move the corpus to 11 min .. 22 h before the present so that sealing builds the minute-level occupancy map.",
 "C07": "Every batch ends with a fresh-fraction burst case: 60/200 rounds on new active fractions with 2-6 first bulks at once and readers asking NOT-queries until the index workers are idle, with delays between the per-token queueing steps and a long delay before new tokens are registered.",
 "C08": "Every fourth batch has a token dictionary of several blocks. The clean seal also runs under strace: a temporary file is renamed into place only after all its writes are covered by a completed fsync, and .meta/.docs are unlinked only after a directory fsync that follows the index rename.",
 "C10": "Part C: 3-8 clients x 12 requests in flight at once through one ingestor to a storage client whose calls last 300 us and re-read their payload before returning (no payload changes in flight; every request's call carries exactly its own documents).",
 "C12": "Text atoms include words with numeric runes outside the decimal digits; one multi-type field lists its default type last.",
 "C13": "Part (e): a live store per batch (one document per dictionary token, multi-block dictionaries in every other batch) answers every pattern/range on the active and on the sealed fraction (block-loading token provider).",
 "C14": "Every third batch has a fraction of 4.5-13 k documents (several ID blocks); a third of the fractions receive a partial re-delivery with documents outside their time borders before sealing.",
 "C15": "A deletion marker present before a start must be gone after it. Every third history has slow seals (seeded sleeps at the sealer's hooks, or the k-th seal parked for the rest of the process lifetime with the process killed at the end), so that retention shifts out fractions still being sealed.",
 "C17": "Forms: active, replayed (stop and reopen while active), sealed, restarted; a quarter of the batches use large concurrent bulks.",
 "C18": "Every third concurrent run is wide (hundreds of small entries, tiny limit, slow loaders); scripted shrink-while-loading histories park 1-6 loads in flight across a cleaning pass that drops >= 90 % of a 190-600 entry map and then compare accounted size with the live entries.",
 "C19": "Late-fraction scenarios: the worker is parked after its k-th durable write, the store seals, ingests, seals and ingests again, is killed and restarted; the resumed result must equal the synchronous search taken before the start and contain no document of the later fraction. The first request of every corpus also runs under strace (files renamed into place only after their writes are fsynced).",
 "C20": "A quarter of the documents carry two members whose names differ only by letter case; third surface: the proxy's public Fetch handler with a fields filter; half of the pipe queries carry a '|' byte inside a quoted value of the filter part.",
}

def main():
    for pid, extra in ADD.items():
        CHECKS[pid]["level_claimed"]["text"] += " " + extra
    claimed = sorted(CHECKS)
    na = [{"property_id": p, "reason": "check not built yet in this session (planned; see DESIGN.md section 2)"} for p in ALL if p not in CHECKS]
    commits = []
    try:
        out = subprocess.run(["git", "-C", "/repo", "log", "--format=%H %s"], capture_output=True, text=True).stdout
        for ln in out.splitlines():
            hsh, subj = ln.split(" ", 1)
            if subj.startswith("verif-hook:"):
                commits.append(hsh)
    except Exception:
        pass
    m = {"version": 1, "setup_cmd": "./setup.sh",
         "hooks": {"guard": "verif",
                   "enable": "go build -tags verif (the harness module replaces github.com/ozontech/seq-db with /repo, so every run rebuilds /repo's working tree with the tag on)",
                   "baseline_off_cmd": "cd /repo && GOFLAGS=-mod=mod go test -json -vet=off -count=1 -timeout 25m ./...",
                   "source_commits": commits, "add_only": True},
         "engines": [{"name": "vcheck", "path": "/verif/cmd/vcheck", "serves_properties": claimed,
                      "kind_free_text": "orchestrator + child workers hosting the real seq-db packages in-process; oracles = reference model, invariants at hooks, offline checkers over event logs; Go race detector for the concurrency properties"}],
         "checks": [CHECKS[p] for p in claimed],
         "notes": "Runtime monitoring only; see DESIGN.md. Verdicts are three-valued; exit 2 = inconclusive (monitors observed nothing). known_findings.json lists repaired defects (status fixed, suppress nothing).",
         "not_applicable": na}
    json.dump(m, open("/verif/MANIFEST.json", "w"), indent=1)
    print("claimed:", claimed)

if __name__ == "__main__":
    main()
