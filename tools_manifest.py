#!/usr/bin/env python3
# Regenerates MANIFEST.json from the table below (kept next to the checks so that both stay in step).
import json, subprocess
ALL = ["C%02d" % i for i in range(1, 21)]
CHECKS = {}
def chk(pid, cat, text, note, tech, ref):
    CHECKS[pid] = {"property_id": pid, "quick_cmd": f"./run.sh {pid} quick", "thorough_cmd": f"./run.sh {pid} thorough",
        "evidence_file": f"/verif/evidence/{pid}.json", "replay_cmd_template": f"./run.sh {pid} --replay {{path}}", "engine": "vcheck",
        "level_claimed": {"category": cat, "text": text, "design_ref": ref}, "level_note": note, "technique": tech}

DIFF = "runtime differential oracle vs reference model over seeded workloads"
chk("C02", "exploration",
    "Differential runtime monitoring: the real store search path (both parsers, NOT propagation, eval tree, merge nodes, LID borders, limit/total loop) runs on seeded corpora x query trees x ranges x orders x limits and every response is compared with a naive reference model. Held on the executions explored, nothing more.",
    "Trusts the naive model in /verif/internal/model and Go's runtime; tokens supplied explicitly (tokenizers are C10/C11); from/to < 2^62.", DIFF, "DESIGN.md 2/C02")
chk("C04", "exploration",
    "The real streaming Fetch handler (chunk sizing goroutine, per-fraction grouping, sealed ID-table binary search, active positions map) is driven with seeded ID lists mixing stored and unknown IDs of every kind named in the property; every stream entry is compared with the stored bytes and the worker process must stay alive. A dead worker is attributed to the in-flight case through a write-ahead record.",
    "Wrong hints for stored IDs are treated as client error (only position/ID/liveness judged). Lists up to 3000 IDs in quick, up to 100k in thorough.", "runtime oracle on the fetch stream + process-liveness monitor (child worker, write-ahead case log)", "DESIGN.md 2/C04")
chk("C05", "exploration",
    "Metamorphic + model check at run time: the same corpus is laid out over shards x replicas x 1..6 overlapping fractions per replica by seeded rules, searched through the real proxy search ingestor (fan-out, QPR merge, pagination) and directly at each store with FractionsPerIteration 1/2/3/all; every page of a full page walk, totals, histograms and aggregations are compared with the model over the union corpus.",
    "Replicas hold equal documents; totals/histograms/aggregations are only judged for layouts that partition the corpus.", DIFF + " (layout metamorphism, page walks)", "DESIGN.md 2/C05")
chk("C06", "exploration",
    "Every aggregation function, with/without group-by and time bins, and histograms are computed by the real stores and the real proxy merge and compared with values computed directly from the matching documents; the per-fraction partial results of each case are additionally merged with the real seq.MergeQPRs in 6 seeded orders/groupings which must all agree with the model.",
    "Float sums within 1e-9 relative tolerance; single-valued numeric fields; not-exists compared per group.", DIFF + " + merge-order permutation monitor", "DESIGN.md 2/C06")

def main():
    claimed = sorted(CHECKS)
    na = [{"property_id": p, "reason": "check not built yet in this session (planned; see DESIGN.md section 2)"} for p in ALL if p not in CHECKS]
    commits = []
    try:
        out = subprocess.run(["git", "-C", "/repo", "log", "--format=%H %s"], capture_output=True, text=True).stdout
        for ln in out.splitlines():
            hsh, subj = ln.split(" ", 1)
            if subj.startswith("verif-hook:"):
                commits.append(hsh)
    except Exception:
        pass
    m = {"version": 1, "setup_cmd": "./setup.sh",
         "hooks": {"guard": "verif",
                   "enable": "go build -tags verif (the harness module replaces github.com/ozontech/seq-db with /repo, so every run rebuilds /repo's working tree with the tag on)",
                   "baseline_off_cmd": "cd /repo && GOFLAGS=-mod=mod go test -json -vet=off -count=1 -timeout 25m ./...",
                   "source_commits": commits, "add_only": True},
         "engines": [{"name": "vcheck", "path": "/verif/cmd/vcheck", "serves_properties": claimed,
                      "kind_free_text": "orchestrator + child workers hosting the real seq-db packages in-process; oracles = reference model, invariants at hooks, offline checkers over event logs; Go race detector for the concurrency properties"}],
         "checks": [CHECKS[p] for p in claimed],
         "notes": "Runtime monitoring only; see DESIGN.md. Verdicts are three-valued; exit 2 = inconclusive (monitors observed nothing). known_findings.json lists repaired defects (status fixed, suppress nothing).",
         "not_applicable": na}
    json.dump(m, open("/verif/MANIFEST.json", "w"), indent=1)
    print("claimed:", claimed)

if __name__ == "__main__":
    main()
