#!/bin/bash
# Offline build of the orchestrator/worker (plain and -race) from files on disk only.
set -e
cd "$(dirname "$0")"
. ./env.sh
mkdir -p bin evidence replays
# keep go.sum in step with /repo's (the harness has no dependency /repo does not have, except porcupine if used)
if [ -f /repo/go.sum ]; then cat /repo/go.sum go.sum 2>/dev/null | sort -u > go.sum.new && mv go.sum.new go.sum; fi
go build -tags verif -o bin/vcheck ./cmd/vcheck
go build -race -tags verif -o bin/vcheck-race ./cmd/vcheck
echo "setup ok"
