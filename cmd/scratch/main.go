package main

import (
	"fmt"
	"os"
	"time"
	"runtime/pprof"

	"verif/internal/gen"
	"verif/internal/h"
	"verif/internal/props"
	"verif/internal/sdb"
)

func main() {
	dir, _ := os.MkdirTemp("", "scratch")
	defer os.RemoveAll(dir)
	r := h.NewRng(1)
	c := gen.MakeCorpus(r, gen.CorpusOpt{N: 100, Vocab: 5})
	t := time.Now()
	st, err := sdb.Open(dir, sdb.Opt{Mapping: props.StoreMapping()})
	fmt.Println("open", time.Since(t), err)
	t = time.Now()
	st.Bulk(c.Docs)
	st.WaitIdle()
	fmt.Println("bulk", time.Since(t))
	t = time.Now()
	st.SealAll()
	fmt.Println("seal", time.Since(t))
	go func() { time.Sleep(5 * time.Second); pprof.Lookup("goroutine").WriteTo(os.Stdout, 1); os.Exit(1) }()
	t = time.Now()
	st.Stop()
	fmt.Println("stop", time.Since(t))
}
