// vcheck is both the orchestrator (`vcheck run <id> <tier> [--replay f]`) and the child worker
// (`vcheck worker ...`, spawned by the orchestrator; one process per batch, see DESIGN.md section 0).
package main

import (
	"fmt"
	"os"
	"sort"
	"strconv"

	"verif/internal/h"
	_ "verif/internal/props"
)

func main() {
	if len(os.Args) < 2 {
		usage()
	}
	switch os.Args[1] {
	case "run":
		if len(os.Args) < 4 {
			usage()
		}
		id, tier := os.Args[2], os.Args[3]
		replay := ""
		if tier == "--replay" {
			if len(os.Args) < 5 {
				usage()
			}
			replay, tier = os.Args[4], "quick"
		}
		if t := os.Getenv("VERIF_TIER"); t != "" && replay == "" && (t == "quick" || t == "thorough") && len(os.Args) == 4 && os.Args[3] == "auto" {
			tier = t
		}
		seed := uint64(1)
		if s := os.Getenv("VERIF_SEED"); s != "" {
			if v, err := strconv.ParseUint(s, 10, 64); err == nil {
				seed = v
			} else if v, err := strconv.ParseInt(s, 10, 64); err == nil {
				seed = uint64(v)
			}
		}
		os.Exit(h.RunCheck(id, tier, seed, replay))
	case "worker":
		// worker <id> <tier> <seed> <batch> <from> <only> <dir> <out>
		if len(os.Args) != 10 {
			usage()
		}
		p := h.Registry[os.Args[2]]
		if p == nil {
			fmt.Fprintln(os.Stderr, "unknown property", os.Args[2])
			os.Exit(3)
		}
		seed, _ := strconv.ParseUint(os.Args[4], 10, 64)
		batch, _ := strconv.Atoi(os.Args[5])
		from, _ := strconv.Atoi(os.Args[6])
		only, _ := strconv.Atoi(os.Args[7])
		w, err := h.NewW(p.ID, os.Args[3], seed, batch, from, only, os.Args[8], os.Args[9])
		if err != nil {
			fmt.Fprintln(os.Stderr, err)
			os.Exit(3)
		}
		w.Race = h.RaceEnabled
		p.Run(w, batch)
		w.Finish()
	case "phase":
		// phase <kind> <spec.json> : one process lifetime of a crash/restart scenario (see internal/h/phase.go)
		os.Exit(h.RunPhase(os.Args[2:]))
	case "list":
		ids := make([]string, 0)
		for id := range h.Registry {
			ids = append(ids, id)
		}
		sort.Strings(ids)
		for _, id := range ids {
			fmt.Println(id)
		}
	default:
		usage()
	}
}

func usage() {
	fmt.Fprintln(os.Stderr, "usage: vcheck run <id> quick|thorough | vcheck run <id> --replay <file> | vcheck list")
	os.Exit(3)
}
