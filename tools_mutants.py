#!/usr/bin/env python3
"""Runs textual mutants of seq-db against the checks (validation of the monitors, DESIGN.md section 3.2 / 7).

  tools_mutants.py run <mutants.json> [name-prefix...]     each mutant: applied in a scratch worktree of /repo (never in /repo), the
        property's quick check is run with VERIF_REPO=<worktree> (thorough if --thorough and quick was silent), result appended to
        /verif/mutants/results.jsonl; the mutants themselves are kept in /verif/mutants/<file>.
A mutant = {"name","property","file","old","new","needs"}; `old` must occur exactly once in `file`.
"""
import json, os, subprocess, sys, shutil

ENV = dict(os.environ)
ENV["PATH"] = "/root/go/pkg/mod/golang.org/toolchain@v0.0.1-go1.24.0.linux-amd64/bin:" + ENV["PATH"]
ENV.update(GOTOOLCHAIN="local", GOFLAGS="-mod=mod", GOPROXY="off", LOG_LEVEL="fatal")
ENV.pop("GOSUMDB", None)
WT = "/tmp/mutwt"

def sh(cmd, cwd=None, timeout=7200, env=None):
    p = subprocess.run(cmd, shell=True, cwd=cwd, env=env or ENV, capture_output=True, text=True, timeout=timeout)
    return p.returncode, p.stdout + p.stderr

def main():
    args = [a for a in sys.argv[2:] if not a.startswith("--")]
    thorough = "--thorough" in sys.argv
    global WT
    WT = "/tmp/mutwt-" + os.path.basename(args[0]).split(".")[0]
    muts = json.load(open(args[0]))
    prefixes = args[1:]
    os.makedirs("/verif/mutants", exist_ok=True)
    sh(f"git -C /repo worktree remove --force {WT}")
    rc, o = sh(f"git -C /repo worktree add --detach {WT} HEAD")
    assert rc == 0, o
    env = dict(ENV); env["VERIF_REPO"] = WT
    try:
        for m in muts:
            if prefixes and not any(m["name"].startswith(p) for p in prefixes):
                continue
            sh("git checkout -- .", cwd=WT)
            edits = m.get("edits") or [{"file": m["file"], "old": m["old"], "new": m["new"]}]
            bad = 0
            for e in edits:
                path = os.path.join(WT, e["file"])
                src = open(path).read()
                if src.count(e["old"]) != 1:
                    bad += 1
                else:
                    open(path, "w").write(src.replace(e["old"], e["new"]))
            if bad:
                res = {"name": m["name"], "status": "does-not-apply"}
            else:
                rc, o = sh("go build ./...", cwd=WT)
                if rc != 0:
                    res = {"name": m["name"], "status": "does-not-compile", "tail": o[-300:]}
                else:
                    res = {"name": m["name"], "property": m["property"], "status": "silent"}
                    for tier in (("quick", "thorough") if thorough else ("quick",)):
                        rc, o = sh(f"./run.sh {m['property']} {tier}", cwd="/verif", env=env)
                        lines = o.splitlines()
                        summ = next((l for l in lines if l.startswith(m["property"] + " tier")), "")
                        sigs = sorted(set(l.strip() for l in lines if l.startswith("  signature")))[:5]
                        res.update(tier=tier, exit=rc, summary=summ, signatures=sigs)
                        if rc == 1 and any(l.startswith("VIOLATION") for l in lines):
                            res["status"] = "caught"
                            break
                        if rc not in (0, 1):
                            res["status"] = "check-broke"
                            res["tail"] = o[-400:]
                            break
            res["file"] = m.get("file"); res["needs"] = m.get("needs", "")
            print(json.dumps(res)[:400], flush=True)
            open("/verif/mutants/results.jsonl", "a").write(json.dumps(res) + "\n")
    finally:
        sh(f"git -C /repo worktree remove --force {WT}")
        shutil.rmtree("/verif/replays", ignore_errors=True); os.makedirs("/verif/replays", exist_ok=True)

if __name__ == "__main__":
    main()
