#!/bin/bash
# run.sh <property-id> quick|thorough      run a check (rebuilds from /repo's current working tree first)
# run.sh <property-id> --replay <file>     re-execute one recorded case
# VERIF_REPO=<dir> run.sh ...               build against another checkout of seq-db (scratch worktrees, snapshots); default /repo
cd "$(dirname "$0")"
. ./env.sh
ID="$1"; shift
mkdir -p bin evidence replays
REPO="${VERIF_REPO:-/repo}"
if [ -f "$REPO/go.sum" ]; then cat "$REPO/go.sum" go.sum 2>/dev/null | sort -u > go.sum.new && mv go.sum.new go.sum; fi
BIN=bin
MODFLAG=""
if [ "$REPO" != /repo ]; then
  BIN="bin/alt-$(echo "$REPO" | md5sum | cut -c1-10)"
  mkdir -p "$BIN"
  sed "s#=> /repo#=> $REPO#" go.mod > "$BIN/go.mod"
  cp go.sum "$BIN/go.sum"
  MODFLAG="-modfile=$BIN/go.mod"
fi
build() {
  # go's build cache makes this a no-op when nothing under the repository or /verif changed; a flock keeps parallel checks from racing on bin/
  (
    flock 9
    go build $MODFLAG -tags verif -o "$BIN/vcheck" ./cmd/vcheck 2> "$BIN/build.err" || { echo "BUILD FAILED"; cat "$BIN/build.err"; exit 3; }
    if [ "$1" = race ]; then
      go build $MODFLAG -race -tags verif -o "$BIN/vcheck-race" ./cmd/vcheck 2> "$BIN/build-race.err" || { echo "BUILD FAILED (race)"; cat "$BIN/build-race.err"; exit 3; }
    fi
  ) 9> "$BIN/.lock"
}
case "$ID" in
  C07|C17|C18) build race || exit 3 ;;
  *) build || exit 3 ;;
esac
exec "./$BIN/vcheck" run "$ID" "$@"
