#!/bin/bash
# run.sh <property-id> quick|thorough      run a check (rebuilds from /repo's current working tree first)
# run.sh <property-id> --replay <file>     re-execute one recorded case
cd "$(dirname "$0")"
. ./env.sh
ID="$1"; shift
mkdir -p bin evidence replays
if [ -f /repo/go.sum ]; then cat /repo/go.sum go.sum 2>/dev/null | sort -u > go.sum.new && mv go.sum.new go.sum; fi
build() {
  # go's build cache makes this a no-op when nothing under /repo or /verif changed; a flock keeps parallel checks from racing on bin/
  (
    flock 9
    go build -tags verif -o bin/vcheck ./cmd/vcheck 2> bin/build.err || { echo "BUILD FAILED"; cat bin/build.err; exit 3; }
    if [ "$1" = race ]; then
      go build -race -tags verif -o bin/vcheck-race ./cmd/vcheck 2> bin/build-race.err || { echo "BUILD FAILED (race)"; cat bin/build-race.err; exit 3; }
    fi
  ) 9> bin/.lock
}
case "$ID" in
  C07|C17|C18) build race || exit 3 ;;
  *) build || exit 3 ;;
esac
exec ./bin/vcheck run "$ID" "$@"
