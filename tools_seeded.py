#!/usr/bin/env python3
"""Bookkeeping for independently seeded breaking changes (see DESIGN.md section 7).

  tools_seeded.py add <name> <property> <worktree> <demo-cmd> <needs...>
      <worktree>/SEED_OUT/patch.diff is the change (already applied in the worktree), <demo-cmd> is run inside the worktree.
      Confirms: demo fails with the change, passes without; the touched packages' tests still pass; then applies the
      patch to /repo, runs the property's quick check (thorough if quick is silent), undoes the patch, and writes
      /verif/seeded/<name>/{patch.diff,demo files,notes.md,meta.json}.
  tools_seeded.py rerun [name...]   re-run the checks against the kept patches (apply to /repo, run, undo) and refresh meta.json
"""
import json, os, shutil, subprocess, sys, glob, re

ENV = dict(os.environ)
ENV["PATH"] = "/root/go/pkg/mod/golang.org/toolchain@v0.0.1-go1.24.0.linux-amd64/bin:" + ENV["PATH"]
ENV.update(GOTOOLCHAIN="local", GOFLAGS="-mod=mod", GOPROXY="off", LOG_LEVEL="fatal")
ENV.pop("GOSUMDB", None)

def sh(cmd, cwd=None, timeout=3600):
    p = subprocess.run(cmd, shell=True, cwd=cwd, env=ENV, capture_output=True, text=True, timeout=timeout)
    return p.returncode, (p.stdout + p.stderr)

def run_checks(patch, checks, tiers=("quick", "thorough"), worktree=None):
    """apply to /repo, run, undo; returns {check: {tier, fired, first_lines}}.
    With worktree (a checkout = /repo HEAD + the patch) the checks are pointed at it instead (VERIF_REPO) and /repo is left alone:
    used while another run needs /repo unchanged."""
    out = {}
    if worktree:
        env = dict(ENV); env["VERIF_REPO"] = worktree
        for c in checks:
            for tier in tiers:
                p = subprocess.run(f"./run.sh {c} {tier}", shell=True, cwd="/verif", env=env, capture_output=True, text=True, timeout=5400)
                rc, o = p.returncode, p.stdout + p.stderr
                lines = [l for l in o.splitlines() if l.startswith(c + " tier") or l.startswith("VIOLATION") or l.startswith("  signature")]
                fired = rc == 1 and any(l.startswith("VIOLATION") for l in lines)
                sigs = sorted(set(l.strip() for l in lines if l.startswith("  signature")))[:6]
                out[c] = {"tier": tier, "fired": fired, "exit": rc, "summary": next((l for l in lines if l.startswith(c + " tier")), ""), "signatures": sigs}
                if fired or rc not in (0, 1):
                    break
        return out
    rc, o = sh(f"git -C /repo status --porcelain")
    assert o.strip() == "", "/repo working tree is not clean: " + o
    rc, o = sh(f"git -C /repo apply {patch}")
    assert rc == 0, "patch does not apply to /repo: " + o
    try:
        for c in checks:
            for tier in tiers:
                rc, o = sh(f"./run.sh {c} {tier}", cwd="/verif", timeout=5400)
                lines = [l for l in o.splitlines() if l.startswith(c + " tier") or l.startswith("VIOLATION") or l.startswith("  signature")]
                fired = rc == 1 and any(l.startswith("VIOLATION") for l in lines)
                sigs = sorted(set(l.strip() for l in lines if l.startswith("  signature")))[:6]
                out[c] = {"tier": tier, "fired": fired, "exit": rc, "summary": next((l for l in lines if l.startswith(c + " tier")), ""), "signatures": sigs}
                if fired or rc not in (0, 1):
                    break
    finally:
        sh("git -C /repo checkout -- . && git -C /repo clean -fdq -- . ':!verifhook'")
        shutil.rmtree("/verif/replays", ignore_errors=True)
        os.makedirs("/verif/replays", exist_ok=True)
    rc, o = sh("git -C /repo status --porcelain")
    assert o.strip() == "", "/repo not restored: " + o
    return out

def add(name, prop, wt, demo, needs, extra_checks=()):
    seed = os.path.join(wt, "SEED_OUT")
    dst = os.path.join("/verif/seeded", name)
    os.makedirs(dst, exist_ok=True)
    patch = os.path.join(seed, "patch.diff")
    for f in glob.glob(os.path.join(seed, "*")):
        if os.path.isfile(f):
            shutil.copy(f, dst)
    # touched files / packages
    touched = re.findall(r"^\+\+\+ b/(\S+)", open(patch).read(), re.M)
    pkgs = sorted(set("./" + os.path.dirname(t) for t in touched if t.endswith(".go")))
    # 1. demo with the change (the worktree has it applied)
    rc, o = sh("git status --porcelain", cwd=wt)
    rc_with, o_with = sh(demo, cwd=wt, timeout=1800)
    rcr, o = sh(f"git apply -R {patch}", cwd=wt)
    assert rcr == 0, "cannot revert patch in worktree: " + o
    rc_without, o_without = sh(demo, cwd=wt, timeout=1800)
    rca, o = sh(f"git apply {patch}", cwd=wt)
    assert rca == 0, "cannot re-apply patch: " + o
    # 2. touched packages' own tests with the change (demo test excluded by -skip when it is a go test)
    rc_pk, o_pk = sh("go build ./... && go test -vet=off -count=1 -skip 'Seed|seed' " + " ".join(pkgs), cwd=wt, timeout=3000)
    checks = [prop] + [c for c in extra_checks if c != prop]
    via = os.environ.get("SEED_VIA_WORKTREE") == "1"
    res = run_checks(patch, checks, worktree=wt if via else None)
    meta = {
        "name": name, "breaks_property": prop, "needs_to_manifest": needs,
        "patch_touches": touched,
        "demonstration": {"command": demo, "exit_with_change": rc_with, "exit_without_change": rc_without,
                          "tail_with_change": o_with[-600:], "confirmed": rc_with != 0 and rc_without == 0},
        "existing_tests_of_touched_packages_with_change": {"packages": pkgs, "exit": rc_pk, "tail": o_pk[-300:]},
        "checks_run": res,
        "caught_by": [c for c, r in res.items() if r["fired"]],
        "how_run": ("checks pointed at the author's worktree (= /repo HEAD + patch) with VERIF_REPO, /repo untouched" if via else
                    "patch applied to /repo (git apply), ./run.sh <check> quick (thorough if quick was silent), then git checkout -- ."),
    }
    json.dump(meta, open(os.path.join(dst, "meta.json"), "w"), indent=1)
    print(json.dumps({k: meta[k] for k in ("name", "caught_by")}), "demo confirmed:", meta["demonstration"]["confirmed"], "pkg tests exit:", rc_pk)
    for c, r in res.items():
        print(" ", c, r["tier"], "FIRED" if r["fired"] else "silent", r["summary"])

def rerun(names):
    for d in sorted(glob.glob("/verif/seeded/*/")):
        name = os.path.basename(d.rstrip("/"))
        if names and name not in names:
            continue
        mp = os.path.join(d, "meta.json")
        meta = json.load(open(mp))
        # by default only the property the change was written against and the checks that caught it before; --all = every check ever run
        checks = list(meta["checks_run"].keys()) if "--all" in sys.argv else [meta["breaks_property"]] + [c for c in meta.get("caught_by", []) if c != meta["breaks_property"]]
        res = dict(meta["checks_run"])
        res.update(run_checks(os.path.join(d, "patch.diff"), checks))
        meta["checks_run"] = res
        meta["caught_by"] = [c for c, r in res.items() if r["fired"]]
        json.dump(meta, open(mp, "w"), indent=1)
        print(name, "caught by", meta["caught_by"])

if __name__ == "__main__":
    if sys.argv[1] == "add":
        extra = []
        args = sys.argv[2:]
        if "--also" in args:
            i = args.index("--also")
            extra = args[i + 1].split(",")
            args = args[:i] + args[i + 2:]
        add(args[0], args[1], args[2], args[3], " ".join(args[4:]), extra)
    elif sys.argv[1] == "rerun":
        rerun([a for a in sys.argv[2:] if not a.startswith("--")])
