package gen

import (
	"fmt"
	"strconv"
	"strings"
	"unicode/utf8"

	"verif/internal/h"
)

// JSON document generator: documents are produced as text so that number notation, escapes and spacing are under
// the generator's control; encoding/json is the independent reader used by the oracles.

var jsonKeyPool = []string{"a", "b", "c", "msg", "level", "k.dot", "a b", "日本", "fields", "or", "x_1", "UPPER", "k-dash", "", "e\"q", "tab\tkey", "time", "ts", "n", "very_long_key_name_0123456789"}

var jsonStrPool = []string{"", "plain", "with space", "quote\"inside", "back\\slash", "new\nline", "tab\there", "unicode é ü ñ", "日本語テキスト", "emoji 😀", "null", "true", "123", "{\"not\":\"object\"}",
	"a*b", "path/to/file", "\u0001ctl", "slash/", "<html>&amp;", "İstanbul", "ǅ", " sep"}

func jsonQuote(r *h.Rng, s string) string {
	var b strings.Builder
	b.WriteByte('"')
	for i := 0; i < len(s); {
		c, w := utf8.DecodeRuneInString(s[i:])
		if c == utf8.RuneError && w == 1 {
			b.WriteByte(s[i]) // invalid byte: passed through raw
			i++
			continue
		}
		i += w
		switch {
		case c == '"':
			b.WriteString(`\"`)
		case c == '\\':
			b.WriteString(`\\`)
		case c == '\n':
			b.WriteString(`\n`)
		case c == '\t':
			b.WriteString(`\t`)
		case c == '\r':
			b.WriteString(`\r`)
		case c < 0x20:
			fmt.Fprintf(&b, `\u%04x`, c)
		case c == '/' && r.Chance(1, 3):
			b.WriteString(`\/`)
		case c > 0x7f && c < 0x10000 && r.Chance(1, 4):
			fmt.Fprintf(&b, `\u%04x`, c) // escaped form of a BMP rune
		default:
			b.WriteRune(c)
		}
	}
	b.WriteByte('"')
	return b.String()
}

var jsonNumPool = []string{"0", "-0", "1", "-1", "42", "3.14", "-2.50", "1e5", "1E5", "1e-3", "1.5E+10", "0.000001", "123456789012345678901234567890", "9007199254740993", "-0.0", "1.0", "100", "2e0"}

func JSONString(r *h.Rng) string {
	if r.Chance(2, 3) {
		return h.Pick(r, jsonStrPool)
	}
	n := r.LogInt(0, 40)
	var b strings.Builder
	for i := 0; i < n; i++ {
		switch r.Intn(8) {
		case 0:
			b.WriteRune(rune(0x400 + r.Intn(0x100)))
		case 1:
			b.WriteByte(' ')
		case 2:
			b.WriteByte("\"\\/\n\t*:{}[],"[r.Intn(12)])
		default:
			b.WriteByte(byte('a' + r.Intn(26)))
		}
	}
	return b.String()
}

func jsonValue(r *h.Rng, depth int) string {
	k := r.Intn(12)
	if depth <= 0 && k >= 9 {
		k = r.Intn(9)
	}
	switch {
	case k < 4:
		return jsonQuote(r, JSONString(r))
	case k < 6:
		if r.Bool() {
			return h.Pick(r, jsonNumPool)
		}
		return strconv.Itoa(r.Range(-100000, 100000))
	case k == 6:
		return "true"
	case k == 7:
		return "false"
	case k == 8:
		return "null"
	case k == 9 || k == 10:
		n := r.Range(0, 4)
		parts := make([]string, n)
		for i := range parts {
			parts[i] = jsonValue(r, depth-1)
		}
		return "[" + strings.Join(parts, jsonSep(r)) + "]"
	default:
		return JSONObject(r, depth-1, r.Range(0, 4), nil)
	}
}

func jsonSep(r *h.Rng) string {
	if r.Chance(1, 5) {
		return ", "
	}
	return ","
}

// JSONObject renders an object with n distinct keys (plus the forced ones: key -> already rendered value).
func JSONObject(r *h.Rng, depth, n int, forced [][2]string) string {
	used := map[string]bool{}
	var parts []string
	for _, kv := range forced {
		if used[kv[0]] {
			continue
		}
		used[kv[0]] = true
		parts = append(parts, jsonQuote(r, kv[0])+":"+kv[1])
	}
	for i := 0; i < n; i++ {
		k := h.Pick(r, jsonKeyPool)
		if r.Chance(1, 4) {
			k = JSONString(r)
		}
		if used[k] {
			continue
		}
		used[k] = true
		colon := ":"
		if r.Chance(1, 6) {
			colon = ": "
		}
		parts = append(parts, jsonQuote(r, k)+colon+jsonValue(r, depth))
	}
	// seeded order of the members
	out := make([]string, len(parts))
	for i, j := range r.Perm(len(parts)) {
		out[i] = parts[j]
	}
	return "{" + strings.Join(out, jsonSep(r)) + "}"
}

// JSONDoc is a top-level document object with up to maxKeys members and nesting up to depth.
func JSONDoc(r *h.Rng, maxKeys, depth int, forced [][2]string) string {
	return JSONObject(r, depth, r.Range(0, maxKeys), forced)
}

// JSONQuoteString renders s as a JSON string literal with the generator's escape choices.
func JSONQuoteString(r *h.Rng, s string) string { return jsonQuote(r, s) }
