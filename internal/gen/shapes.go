package gen

import (
	"fmt"
	"sort"
	"strings"

	"verif/internal/h"
	"verif/internal/model"
)

// Data shapes aimed at the on-disk block constants of seq-db:
//   LID block capacity 65536 postings, ID block 4096 IDs, token/dictionary block 16 KiB.

type Shape struct {
	Name   string
	Corpus *Corpus
	Hot    map[string][]string // field -> tokens sitting on a boundary (queries are biased towards them)
}

var ShapeKinds = []string{"hot-token", "lid-fill", "ids-blocks", "big-dict", "dict-exact", "random", "many-fields", "long-posting-tail"}

func newDoc(i int, tag string, mid, rid uint64) *model.Doc {
	return &model.Doc{ID: model.ID{MID: mid, RID: rid}, Body: []byte(fmt.Sprintf(`{"s":"%s","i":%d}`, tag, i))}
}

func finish(c *Corpus) *Corpus {
	c.MinMID, c.MaxMID = ^uint64(0), 0
	for _, d := range c.Docs {
		if d.ID.MID < c.MinMID {
			c.MinMID = d.ID.MID
		}
		if d.ID.MID > c.MaxMID {
			c.MaxMID = d.ID.MID
		}
	}
	for f, vs := range c.Vocab {
		seen := map[string]bool{}
		var out []string
		for _, v := range vs {
			if !seen[v] {
				seen[v] = true
				out = append(out, v)
			}
		}
		c.Vocab[f] = out
	}
	return c
}

func ensureVocab(c *Corpus) {
	for _, f := range []string{"k1", "k2", "k3", TextField, NumField} {
		if len(c.Vocab[f]) == 0 {
			c.Vocab[f] = []string{"zz"}
		}
	}
}

// MakeShape builds one data shape. scale (0..3) selects the variant around the boundary.
func MakeShape(r *h.Rng, kind string, variant int, tag string) *Shape {
	c := &Corpus{Vocab: map[string][]string{}}
	sh := &Shape{Name: kind, Corpus: c, Hot: map[string][]string{}}
	mid := func(i, spread int) uint64 { return T0 + uint64(r.Intn(spread)) }
	switch kind {
	case "hot-token":
		n := []int{65535, 65536, 65537, 140000}[variant%4]
		sh.Name = fmt.Sprintf("hot-token-%d", n)
		for i := 0; i < n; i++ {
			d := newDoc(i, tag, mid(i, 5000), r.U64())
			d.Toks = append(d.Toks, model.Tok{F: "k1", V: "hot"})
			if i%3 == 0 {
				d.Toks = append(d.Toks, model.Tok{F: "k2", V: fmt.Sprintf("m%d", i%7)})
			}
			if i%1000 == 0 {
				d.Toks = append(d.Toks, model.Tok{F: "k3", V: fmt.Sprintf("rare%d", i/1000)})
			}
			if i%5 == 0 {
				d.Toks = append(d.Toks, model.Tok{F: NumField, V: fmt.Sprint(i % 50)})
			}
			c.Docs = append(c.Docs, d)
		}
		c.Vocab["k1"] = []string{"hot", "cold"}
		c.Vocab["k2"] = []string{"m0", "m1", "m6", "m7"}
		c.Vocab["k3"] = []string{"rare0", "rare1", "rare64", "rare65", "rare139", "rarex"}
		c.Vocab[NumField] = []string{"0", "5", "45", "49", "50"}
		sh.Hot["k1"] = []string{"hot"}
	case "lid-fill":
		// tokens whose postings end exactly at / just around a LID-block boundary
		per := []int{16384, 32768, 21845, 65536}[variant%4]
		ntok := 5
		n := per*ntok/2 + r.Range(0, 3)
		sh.Name = fmt.Sprintf("lid-fill-%d", per)
		for i := 0; i < n; i++ {
			d := newDoc(i, tag, mid(i, 3000), r.U64())
			c.Docs = append(c.Docs, d)
		}
		// token j of k1 covers documents [j*per/2, j*per/2+per) (overlapping halves)
		for j := 0; j < ntok; j++ {
			v := fmt.Sprintf("t%02d", j)
			c.Vocab["k1"] = append(c.Vocab["k1"], v)
			for i := j * per / 2; i < j*per/2+per && i < n; i++ {
				c.Docs[i].Toks = append(c.Docs[i].Toks, model.Tok{F: "k1", V: v})
			}
		}
		for i, d := range c.Docs {
			if i%2 == 0 {
				d.Toks = append(d.Toks, model.Tok{F: "k2", V: fmt.Sprintf("e%d", i%4)})
			}
		}
		c.Vocab["k2"] = []string{"e0", "e2", "e1"}
		sh.Hot["k1"] = c.Vocab["k1"]
	case "ids-blocks":
		n := []int{4095, 4096, 4097, 9000}[variant%4]
		sh.Name = fmt.Sprintf("ids-blocks-%d", n)
		for i := 0; i < n; i++ {
			// few distinct timestamps: many equal MIDs straddle the ID-block edges
			d := newDoc(i, tag, T0+uint64(r.Intn(40)), r.U64())
			d.Toks = append(d.Toks, model.Tok{F: "k1", V: fmt.Sprintf("v%d", i%13)})
			if i%2 == 0 {
				d.Toks = append(d.Toks, model.Tok{F: "k2", V: fmt.Sprintf("w%d", i%5)})
			}
			if i%7 == 0 {
				d.Toks = append(d.Toks, model.Tok{F: NumField, V: fmt.Sprint(i%30 - 10)})
			}
			c.Docs = append(c.Docs, d)
		}
		c.Vocab["k1"] = []string{"v0", "v1", "v12", "v13"}
		c.Vocab["k2"] = []string{"w0", "w4", "w5"}
		c.Vocab[NumField] = []string{"-10", "0", "19", "20"}
	case "big-dict", "dict-exact":
		// a field whose dictionary is larger than one 16 KiB block / sized around the block size
		target := []int{16383, 16384, 16385, 100000}[variant%4]
		if kind == "dict-exact" {
			target = []int{16384 - 1, 16384, 16384 + 1, 2 * 16384}[variant%4]
		}
		sh.Name = fmt.Sprintf("%s-%d", kind, target)
		var toks []string
		size := 0
		for i := 0; size < target; i++ {
			w := fmt.Sprintf("%s%05d", []string{"aa", "ab", "b", "ca", "cz"}[i%5], i)
			if kind == "dict-exact" {
				w = fmt.Sprintf("x%07d", i) // 8 bytes each
			}
			if size+len(w) > target {
				w = w[:1] + strings.Repeat("q", target-size-1)
				if target-size < 1 {
					break
				}
				if target-size == 1 {
					w = "y"
				}
			}
			toks = append(toks, w)
			size += len(w)
		}
		sort.Strings(toks)
		n := len(toks) + r.Range(0, 50)
		for i := 0; i < n; i++ {
			d := newDoc(i, tag, mid(i, 1000), r.U64())
			d.Toks = append(d.Toks, model.Tok{F: "k1", V: toks[i%len(toks)]})
			if i%4 == 0 {
				d.Toks = append(d.Toks, model.Tok{F: "k1", V: toks[(i*7)%len(toks)]})
			}
			d.Toks = append(d.Toks, model.Tok{F: "k2", V: fmt.Sprintf("z%d", i%3)})
			c.Docs = append(c.Docs, d)
		}
		// boundary candidates: first/last tokens and a spread through the dictionary
		for _, i := range []int{0, 1, len(toks) / 4, len(toks) / 2, len(toks)/2 + 1, len(toks) - 2, len(toks) - 1} {
			if i >= 0 && i < len(toks) {
				c.Vocab["k1"] = append(c.Vocab["k1"], toks[i])
			}
		}
		for i := 0; i < 12; i++ {
			c.Vocab["k1"] = append(c.Vocab["k1"], toks[r.Intn(len(toks))])
		}
		c.Vocab["k2"] = []string{"z0", "z1", "z2"}
		sh.Hot["k1"] = c.Vocab["k1"]
	case "many-fields":
		n := r.Range(500, 3000)
		sh.Name = "many-fields"
		fields := []string{"k1", "k2", "k3", TextField, NumField, "g1", "g2", "v1", "v2"}
		for i := 0; i < n; i++ {
			d := newDoc(i, tag, mid(i, 800), r.U64())
			for fi, f := range fields {
				if r.Chance(2, 3) {
					v := fmt.Sprintf("%c%d", 'a'+byte(fi), r.Intn(20+fi*30))
					if f == NumField || f == "v1" || f == "v2" {
						v = fmt.Sprint(r.Range(-20, 200))
					}
					d.Toks = append(d.Toks, model.Tok{F: f, V: v})
				}
			}
			c.Docs = append(c.Docs, d)
		}
		for _, d := range c.Docs[:min(len(c.Docs), 200)] {
			for _, t := range d.Toks {
				c.Vocab[t.F] = append(c.Vocab[t.F], t.V)
			}
		}
	case "long-posting-tail":
		// one token continued over 3 LID blocks, followed by tokens that start in the continued block
		n := 3*65536 + r.Range(-2, 2)
		if variant%2 == 1 {
			n = 2*65536 + r.Range(-2, 2)
		}
		sh.Name = fmt.Sprintf("long-posting-%d", n)
		for i := 0; i < n; i++ {
			d := newDoc(i, tag, mid(i, 8000), r.U64())
			d.Toks = append(d.Toks, model.Tok{F: "k1", V: "a-long"})
			if i%9 == 0 {
				d.Toks = append(d.Toks, model.Tok{F: "k1", V: fmt.Sprintf("b%d", i%5)})
			}
			if i%11 == 0 {
				d.Toks = append(d.Toks, model.Tok{F: "k2", V: "side"})
			}
			c.Docs = append(c.Docs, d)
		}
		c.Vocab["k1"] = []string{"a-long", "b0", "b4", "b5"}
		c.Vocab["k2"] = []string{"side", "none"}
		sh.Hot["k1"] = []string{"a-long", "b0"}
	default:
		cc := MakeCorpus(r, CorpusOpt{N: r.LogInt(50, 6000), Vocab: r.Range(3, 40), MIDSpread: r.LogInt(3, 3000), SmallRID: r.Chance(1, 4), MaxToks: 3, Tag: tag, Agg: true})
		sh.Name = "random"
		sh.Corpus = cc
		return sh
	}
	// distinct IDs
	seen := map[model.ID]bool{}
	for _, d := range c.Docs {
		for seen[d.ID] {
			d.ID.RID++
		}
		seen[d.ID] = true
	}
	ensureVocab(c)
	finish(c)
	return sh
}
