// Package gen holds the seeded generators shared by the differential checks: corpora, query trees, time ranges.
package gen

import (
	"fmt"
	"strconv"
	"strings"

	"verif/internal/h"
	"verif/internal/model"
)

const T0 = uint64(1_700_000_000_000) // base timestamp (ms) of generated corpora

// Fields used by store-level corpora. All are mapped as keyword except T1 (text, single-word tokens).
var KeywordFields = []string{"k1", "k2", "k3"}

const NumField = "n1"
const TextField = "t1"

type CorpusOpt struct {
	N         int    // documents
	Vocab     int    // words per keyword field
	MIDSpread int    // distinct timestamps = roughly MIDSpread (small => many equal timestamps)
	SmallRID  bool   // RIDs from a tiny range (stress tie-breaking)
	MaxToks   int    // max tokens per field per doc
	BodyPad   int    // max extra body bytes
	BaseMID   uint64 // 0 => T0
	Tag       string // distinguishes bodies of different corpora
	Agg       bool   // add single-valued aggregation fields g1,g2 (groups) and v1,v2 (numeric)
	Groups    int    // cardinality of g2 (g1 has at most 4 values)
	HugeNums  bool   // v1/v2 hold only values beyond the int64 range, all of one sign (every group and bin then has nothing but such values)
}

type Corpus struct {
	Docs   []*model.Doc
	Vocab  map[string][]string // field -> values in use
	MinMID uint64
	MaxMID uint64
}

var alphabet = []byte("abc12-._")
var trickyWords = []string{"or", "and", "not", "in", "to", "", "a", "ab", "abc", "abd", "b", "ba", "aa", "aaa", "a-b", "a.b", "a_b", "1", "12", "-1"}

func Word(r *h.Rng) string {
	if r.Chance(1, 3) {
		return h.Pick(r, trickyWords)
	}
	n := r.LogInt(1, 7)
	b := make([]byte, n)
	for i := range b {
		b[i] = alphabet[r.Intn(len(alphabet))]
	}
	return string(b)
}

var numPool = []string{"0", "-0", "1", "2", "3", "5", "7", "10", "11", "20", "100", "-1", "-5", "-10", "1.5", "2.25", "-0.5", "1e2", "1e-1", "007", "3.0", "+4", "1000000", "0.001",
	"abc", "", "1a", "nan", "inf", "--1", "1.2.3"}

func NumWord(r *h.Rng) string {
	if r.Chance(3, 4) {
		return h.Pick(r, numPool)
	}
	switch r.Intn(3) {
	case 0:
		return strconv.Itoa(r.Range(-50, 50))
	case 1:
		return strconv.FormatFloat(float64(r.Range(-400, 400))/8, 'f', -1, 64)
	}
	return strconv.Itoa(r.Range(0, 1000))
}

var aggNumPool = []string{"0", "-0", "1", "2", "3", "10", "-1", "-7", "2.5", "-3.75", "0.125", "1e3", "1e-3", "-1e2", "123456789", "0.000125", "+7", "007", "4.0", "1e15", "-2.5e-7", "9007199254740993"}

// AggNum returns a string that parses as a finite float (negatives, decimals, exponents, -0, large/small magnitudes).
func AggNum(r *h.Rng) string {
	switch r.Intn(4) {
	case 0:
		return h.Pick(r, aggNumPool)
	case 1:
		return strconv.Itoa(r.Range(-1000, 1000))
	case 2:
		return strconv.FormatFloat(float64(r.Range(-8000, 8000))/16, 'f', -1, 64)
	default:
		return strconv.FormatFloat(float64(r.Range(-999, 999))*[]float64{1e-6, 1e-3, 1, 1e3, 1e9}[r.Intn(5)], 'g', -1, 64)
	}
}

var hugePos = []string{"9223372036854775808", "18446744073709551615", "1e19", "1.5e19", "36893488147419103232", "2.5e40", "1e300"}
var hugeNeg = []string{"-9223372036854775809", "-18446744073709551616", "-1e19", "-1.5e19", "-36893488147419103232", "-2.5e40", "-1e300"}

func MakeCorpus(r *h.Rng, o CorpusOpt) *Corpus {
	if o.BaseMID == 0 {
		o.BaseMID = T0
	}
	if o.MaxToks == 0 {
		o.MaxToks = 3
	}
	if o.MIDSpread <= 0 {
		o.MIDSpread = o.N
	}
	c := &Corpus{Vocab: map[string][]string{}}
	for _, f := range append(append([]string{}, KeywordFields...), TextField) {
		seen := map[string]bool{}
		for len(c.Vocab[f]) < o.Vocab {
			w := Word(r)
			if f == TextField {
				w = strings.Map(func(c rune) rune {
					if c == '-' || c == '.' {
						return 'x'
					}
					return c
				}, w)
				if w == "" {
					w = "w"
				}
			}
			if seen[w] {
				if r.Chance(1, 4) {
					w = w + string(alphabet[r.Intn(3)])
				} else {
					continue
				}
				if seen[w] {
					continue
				}
			}
			seen[w] = true
			c.Vocab[f] = append(c.Vocab[f], w)
		}
	}
	nseen := map[string]bool{}
	for i := 0; i < o.Vocab+4; i++ {
		w := NumWord(r)
		if !nseen[w] {
			nseen[w] = true
			c.Vocab[NumField] = append(c.Vocab[NumField], w)
		}
	}
	if o.Agg {
		if o.Groups <= 0 {
			o.Groups = 20
		}
		c.Vocab["g1"] = []string{"ga", "gb", "g-c", "g.d"}[:r.Range(1, 4)]
		for i := 0; i < o.Groups; i++ {
			c.Vocab["g2"] = append(c.Vocab["g2"], fmt.Sprintf("grp%d", i))
		}
		nv := r.Range(1, 30)
		aggNum := AggNum
		if o.HugeNums {
			pool := hugePos
			if r.Bool() {
				pool = hugeNeg
			}
			pool = pool[:r.Range(1, len(pool))]
			nv = r.Range(1, len(pool))
			aggNum = func(r *h.Rng) string { return h.Pick(r, pool) }
		}
		seen := map[string]bool{}
		for len(c.Vocab["v1"]) < nv {
			v := aggNum(r)
			if !seen[v] {
				seen[v] = true
				c.Vocab["v1"] = append(c.Vocab["v1"], v)
			}
		}
	}
	ids := map[model.ID]bool{}
	c.MinMID, c.MaxMID = ^uint64(0), 0
	for i := 0; i < o.N; i++ {
		var id model.ID
		for try := 0; ; try++ {
			id.MID = o.BaseMID + uint64(r.Intn(o.MIDSpread))*uint64(1+r.Intn(3))
			if o.SmallRID && try < 20 {
				id.RID = uint64(r.Intn(8))
			} else if r.Chance(1, 8) {
				id.RID = uint64(r.Intn(3)) * (^uint64(0) / 2) // 0, 2^63-1, 2^64-2
			} else {
				id.RID = r.U64()
			}
			if !ids[id] {
				break
			}
		}
		ids[id] = true
		d := &model.Doc{ID: id}
		for _, f := range []string{"k1", "k2", "k3", TextField, NumField} {
			nt := r.Intn(o.MaxToks + 1)
			if f == "k1" && nt == 0 && r.Chance(3, 4) {
				nt = 1
			}
			for j := 0; j < nt; j++ {
				d.Toks = append(d.Toks, model.Tok{F: f, V: h.Pick(r, c.Vocab[f])})
			}
		}
		if o.Agg {
			if !r.Chance(1, 6) {
				d.Toks = append(d.Toks, model.Tok{F: "g1", V: h.Pick(r, c.Vocab["g1"])})
			}
			if !r.Chance(1, 10) {
				d.Toks = append(d.Toks, model.Tok{F: "g2", V: h.Pick(r, c.Vocab["g2"])})
			}
			if !r.Chance(1, 5) {
				d.Toks = append(d.Toks, model.Tok{F: "v1", V: h.Pick(r, c.Vocab["v1"])})
			}
			if r.Chance(1, 2) {
				if o.HugeNums {
					d.Toks = append(d.Toks, model.Tok{F: "v2", V: h.Pick(r, c.Vocab["v1"])})
				} else {
					d.Toks = append(d.Toks, model.Tok{F: "v2", V: AggNum(r)})
				}
			}
		}
		if r.Chance(1, 10) && len(d.Toks) > 0 && !o.Agg { // repeated token inside one document
			d.Toks = append(d.Toks, d.Toks[r.Intn(len(d.Toks))])
		}
		pad := ""
		if o.BodyPad > 0 {
			pad = strings.Repeat("x", r.LogInt(0, o.BodyPad))
		}
		d.Body = []byte(fmt.Sprintf(`{"c":"%s","i":%d,"mid":%d,"rid":"%d","pad":"%s"}`, o.Tag, i, id.MID, id.RID, pad))
		if id.MID < c.MinMID {
			c.MinMID = id.MID
		}
		if id.MID > c.MaxMID {
			c.MaxMID = id.MID
		}
		c.Docs = append(c.Docs, d)
	}
	return c
}

// Wildcardize turns a word into a glob pattern by replacing parts of it with '*'.
func Wildcardize(r *h.Rng, w string) string {
	n := len(w)
	cut := func() (int, int) {
		a := r.Intn(n + 1)
		b := r.Intn(n + 1)
		if a > b {
			a, b = b, a
		}
		return a, b
	}
	switch r.Intn(8) {
	case 0:
		return "*"
	case 1: // prefix*
		a, _ := cut()
		return w[:a] + "*"
	case 2: // *suffix
		a, _ := cut()
		return "*" + w[a:]
	case 3: // *infix*
		a, b := cut()
		return "*" + w[a:b] + "*"
	case 4: // pre*suf
		a, b := cut()
		return w[:a] + "*" + w[b:]
	case 5: // pre*mid*suf
		if n >= 2 {
			a, b := cut()
			m := (a + b) / 2
			return w[:a] + "*" + w[m:b] + "*" + w[b:]
		}
		return w + "*"
	case 6: // overlapping prefix/suffix longer than the word
		return w + "*" + w
	default: // *a*b*
		a, b := cut()
		return "*" + w[:a] + "*" + w[b:] + "*"
	}
}

func normPat(p string) string {
	// the query languages reject adjacent wildcards on keyword fields; "**" means the same as "*"
	for strings.Contains(p, "**") {
		p = strings.ReplaceAll(p, "**", "*")
	}
	return p
}

type QueryOpt struct {
	MaxDepth int
	NoIn     bool
	Fields   []string // fields literals may use (default: all corpus fields)
}

func (c *Corpus) fields(o QueryOpt) []string {
	if len(o.Fields) > 0 {
		return o.Fields
	}
	return []string{"k1", "k1", "k2", "k3", TextField, NumField}
}

func (c *Corpus) value(r *h.Rng, f string) string {
	if v := c.Vocab[f]; len(v) > 0 && r.Chance(5, 6) {
		return h.Pick(r, v)
	}
	if f == NumField {
		return NumWord(r)
	}
	w := Word(r)
	if f == TextField {
		w = strings.NewReplacer("-", "x", ".", "x").Replace(w)
	}
	return w
}

func (c *Corpus) Leaf(r *h.Rng, o QueryOpt) *model.Q {
	f := h.Pick(r, c.fields(o))
	switch k := r.Intn(10); {
	case k < 3:
		v := c.value(r, f)
		if f == TextField && v == "" {
			v = "w"
		}
		return &model.Q{Op: "lit", Field: f, Pat: v}
	case k < 6:
		p := normPat(Wildcardize(r, c.value(r, f)))
		return &model.Q{Op: "lit", Field: f, Pat: p}
	case k < 8:
		q := &model.Q{Op: "range", Field: f, LoInc: r.Bool(), HiInc: r.Bool()}
		if f == TextField {
			q.Field = "k1"
			f = "k1"
		}
		q.Lo, q.Hi = c.value(r, f), c.value(r, f)
		if r.Chance(3, 4) && q.Lo > q.Hi && f != NumField {
			q.Lo, q.Hi = q.Hi, q.Lo
		}
		if f == NumField && r.Chance(3, 4) {
			a, okA := strconv.ParseFloat(q.Lo, 64)
			b, okB := strconv.ParseFloat(q.Hi, 64)
			if okA == nil && okB == nil && a > b {
				q.Lo, q.Hi = q.Hi, q.Lo
			}
		}
		switch r.Intn(6) {
		case 0:
			q.LoUnb, q.Lo = true, ""
		case 1:
			q.HiUnb, q.Hi = true, ""
		}
		return q
	case k < 9 && !o.NoIn:
		if f == TextField {
			f = "k2"
		}
		n := r.Range(1, 4)
		q := &model.Q{Op: "in", Field: f}
		for i := 0; i < n; i++ {
			v := c.value(r, f)
			if r.Chance(1, 3) {
				v = normPat(Wildcardize(r, v))
			}
			q.Pats = append(q.Pats, v)
		}
		return q
	default:
		if r.Chance(1, 3) {
			return &model.Q{Op: "all"}
		}
		return &model.Q{Op: "lit", Field: f, Pat: c.value(r, f)}
	}
}

func (c *Corpus) Query(r *h.Rng, o QueryOpt) *model.Q {
	if o.MaxDepth == 0 {
		o.MaxDepth = 4
	}
	return c.query(r, o, o.MaxDepth)
}

func (c *Corpus) query(r *h.Rng, o QueryOpt, depth int) *model.Q {
	if depth <= 0 || r.Chance(1, 3) {
		return c.Leaf(r, o)
	}
	switch r.Intn(5) {
	case 0:
		return &model.Q{Op: "not", Kids: []*model.Q{c.query(r, o, depth-1)}}
	case 1, 2:
		n := r.Range(2, 3)
		q := &model.Q{Op: "and"}
		for i := 0; i < n; i++ {
			q.Kids = append(q.Kids, c.query(r, o, depth-1))
		}
		return q
	default:
		n := r.Range(2, 3)
		q := &model.Q{Op: "or"}
		for i := 0; i < n; i++ {
			q.Kids = append(q.Kids, c.query(r, o, depth-1))
		}
		return q
	}
}

// TimeRange picks [from,to] relative to the corpus: on, just before, just after document timestamps; empty,
// inverted and all-covering ranges. Both ends stay below 2^62. Returns a class label for evidence.
func (c *Corpus) TimeRange(r *h.Rng) (from, to uint64, class string) {
	pickMID := func() uint64 {
		if len(c.Docs) == 0 {
			return T0
		}
		return c.Docs[r.Intn(len(c.Docs))].ID.MID
	}
	switch r.Intn(10) {
	case 0, 1, 2:
		return 0, 1 << 62, "all"
	case 3:
		return c.MinMID, c.MaxMID, "exact"
	case 4:
		a, b := pickMID(), pickMID()
		if a > b {
			a, b = b, a
		}
		return a, b, "on-docs"
	case 5:
		a, b := pickMID(), pickMID()
		if a > b {
			a, b = b, a
		}
		return a + 1, b - 1 + 0, "inside"
	case 6:
		a := pickMID()
		return a, a, "point"
	case 7:
		a, b := pickMID(), pickMID()
		if a > b {
			a, b = b, a
		}
		if a > 0 {
			a--
		}
		return a, b + 1, "around"
	case 8:
		if r.Bool() {
			return c.MaxMID + 1, c.MaxMID + 1000, "after"
		}
		return 0, c.MinMID - 1, "before"
	default:
		a, b := pickMID(), pickMID()
		if a < b {
			a, b = b, a
		}
		if a == b {
			a++
		}
		return a, b, "inverted"
	}
}

// LimitFor picks a limit relative to the number of matches k.
func LimitFor(r *h.Rng, k int) (int, string) {
	switch r.Intn(7) {
	case 0:
		return 0, "0"
	case 1:
		return 1, "1"
	case 2:
		if k > 1 {
			return k - 1, "k-1"
		}
		return 1, "1"
	case 3:
		if k > 0 {
			return k, "k"
		}
		return 1, "1"
	case 4:
		return k + 1, "k+1"
	case 5:
		if k > 2 {
			return r.Range(1, k-1), "mid"
		}
		return 2, "2"
	default:
		return k + 1000, "big"
	}
}
