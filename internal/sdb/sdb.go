// Package sdb wraps the real seq-db store (storeapi / fracmanager / frac) for in-process use by the checks.
// Nothing here re-implements seq-db behaviour: it only builds requests and decodes responses.
package sdb

import (
	"context"
	"encoding/binary"
	"fmt"
	"os"
	"slices"
	"sync/atomic"
	"time"

	"google.golang.org/grpc/metadata"

	"github.com/ozontech/seq-db/consts"
	"github.com/ozontech/seq-db/disk"
	"github.com/ozontech/seq-db/frac"
	"github.com/ozontech/seq-db/fracmanager"
	"github.com/ozontech/seq-db/mappingprovider"
	pb "github.com/ozontech/seq-db/pkg/storeapi"
	"github.com/ozontech/seq-db/seq"
	"github.com/ozontech/seq-db/storeapi"

	"verif/internal/model"
)

type Opt struct {
	FracSize         uint64
	TotalSize        uint64
	CacheSize        uint64
	MaintenanceDelay time.Duration
	FracsPerIter     int
	SkipSortDocs     bool
	DocBlockSize     int
	ZstdLevel        int // 0 => -5 (fastest)
	Mapping          seq.Mapping
	HotMode          bool
	SearchWorkers    int
}

type Store struct {
	S   *storeapi.Store
	Dir string
	Opt Opt
	MP  *mappingprovider.MappingProvider
}

func Keyword() seq.MappingTypes { return seq.NewSingleType(seq.TokenizerTypeKeyword, "", 0) }
func Text() seq.MappingTypes    { return seq.NewSingleType(seq.TokenizerTypeText, "", 0) }

func (o Opt) Config(dir string) storeapi.StoreConfig {
	lvl := o.ZstdLevel
	if lvl == 0 {
		lvl = -5
	}
	fs := o.FracSize
	if fs == 0 {
		fs = 256 * consts.MB
	}
	ts := o.TotalSize
	if ts == 0 {
		ts = 64 * consts.GB
	}
	cs := o.CacheSize
	if cs == 0 {
		cs = 256 * consts.MB
	}
	md := o.MaintenanceDelay
	if md == 0 {
		md = time.Hour
	}
	fpi := o.FracsPerIter
	if fpi == 0 {
		fpi = 4
	}
	dbs := o.DocBlockSize
	if dbs == 0 {
		dbs = 4 * consts.MB
	}
	mode := storeapi.StoreModeCold
	if o.HotMode {
		mode = storeapi.StoreModeHot
	}
	sw := o.SearchWorkers
	if sw == 0 {
		sw = 64
	}
	return storeapi.StoreConfig{
		FracManager: fracmanager.Config{
			DataDir:          dir,
			FracSize:         fs,
			TotalSize:        ts,
			CacheSize:        cs,
			MaintenanceDelay: md,
			SealParams: frac.SealParams{
				IDsZstdLevel: lvl, LIDsZstdLevel: lvl, TokenListZstdLevel: lvl, DocsPositionsZstdLevel: lvl,
				TokenTableZstdLevel: lvl, DocBlocksZstdLevel: lvl, DocBlockSize: dbs,
			},
			Fraction: frac.Config{SkipSortDocs: o.SkipSortDocs},
		},
		API: storeapi.APIConfig{
			StoreMode: mode,
			Search: storeapi.SearchConfig{
				WorkersCount:          sw,
				FractionsPerIteration: fpi,
				RequestsLimit:         1 << 20,
			},
			Bulk: storeapi.BulkConfig{RequestsLimit: 1 << 20},
		},
	}
}

// Open starts a real store on dir (created if missing). The maintenance loop runs with Opt.MaintenanceDelay (1h default = idle).
func Open(dir string, o Opt) (*Store, error) {
	if err := os.MkdirAll(dir, 0o755); err != nil {
		return nil, err
	}
	mp, err := mappingprovider.New("", mappingprovider.WithMapping(o.Mapping))
	if err != nil {
		return nil, err
	}
	s, err := storeapi.NewStore(context.Background(), o.Config(dir), mp)
	if err != nil {
		return nil, err
	}
	return &Store{S: s, Dir: dir, Opt: o, MP: mp}, nil
}

// Stop shuts the store down gracefully (seq-db seals a sufficiently filled active fraction on exit).
// Stop stops the store. It gives up after two minutes (a store whose background goroutines are stuck must not turn every
// clean-up into a watchdog expiry; the leaked store dies with the worker process). StopTimeouts counts such give-ups.
func (s *Store) Stop() {
	done := make(chan struct{})
	go func() { s.S.Stop(); close(done) }()
	select {
	case <-done:
	case <-time.After(2 * time.Minute):
		StopTimeouts.Add(1)
	}
}

var StopTimeouts atomic.Int64

// Restart = graceful stop + open on the same directory.
func (s *Store) Restart() (*Store, error) {
	s.S.Stop()
	return Open(s.Dir, s.Opt)
}

// EncodeBulk builds the docs and metas blocks of one bulk with explicit tokens, the way the proxy does
// (every document carries the _all_ token first).
func EncodeBulk(docs []*model.Doc) (docsBlock, metasBlock []byte) {
	dp := frac.NewDocProvider()
	for _, d := range docs {
		toks := make([]seq.Token, 0, len(d.Toks)+1)
		toks = append(toks, seq.Token{Field: []byte(seq.TokenAll), Val: []byte{}})
		for _, t := range d.Toks {
			toks = append(toks, seq.Token{Field: []byte(t.F), Val: []byte(t.V)})
		}
		dp.Append(d.Body, nil, seq.ID{MID: seq.MID(d.ID.MID), RID: seq.RID(d.ID.RID)}, toks)
	}
	a, b := dp.Provide()
	return slices.Clone(a), slices.Clone(b)
}

func (s *Store) BulkRaw(ctx context.Context, count int, docsBlock, metasBlock []byte) error {
	_, err := s.S.GrpcV1().Bulk(ctx, &pb.BulkRequest{Count: int64(count), Docs: docsBlock, Metas: slices.Clone(metasBlock)})
	return err
}

// Bulk ingests documents as one bulk and returns when the store acknowledged it.
func (s *Store) Bulk(docs []*model.Doc) error {
	if len(docs) == 0 {
		return nil
	}
	a, b := EncodeBulk(docs)
	return s.BulkRaw(context.Background(), len(docs), a, b)
}

func (s *Store) WaitIdle() { s.S.WaitIdle() }
func (s *Store) SealAll()  { s.S.WaitIdle(); s.S.SealAll() }

type SearchReq struct {
	Query     string
	SeqQL     bool
	From, To  uint64
	Size      int
	Offset    int
	Asc       bool
	WithTotal bool
	Interval  uint64
	Aggs      []*pb.AggQuery
	Explain   bool
}

type SearchRes struct {
	IDs   []model.ID
	Hints []string
	Total uint64
	Hist  map[uint64]uint64
	Aggs  []*pb.SearchResponse_Agg
	Code  pb.SearchErrorCode
	Raw   *pb.SearchResponse
}

func Ctx(seqql bool) context.Context {
	v := "false"
	if seqql {
		v = "true"
	}
	return metadata.NewIncomingContext(context.Background(), metadata.Pairs("use-seq-ql", v))
}

func (r SearchReq) Proto() *pb.SearchRequest {
	ord := pb.Order_ORDER_DESC
	if r.Asc {
		ord = pb.Order_ORDER_ASC
	}
	return &pb.SearchRequest{
		Query: r.Query, From: int64(r.From), To: int64(r.To), Size: int64(r.Size), Offset: int64(r.Offset),
		Interval: int64(r.Interval), WithTotal: r.WithTotal, Aggs: r.Aggs, Order: ord, Explain: r.Explain,
	}
}

func DecodeSearch(resp *pb.SearchResponse) *SearchRes {
	out := &SearchRes{Total: resp.Total, Hist: resp.Histogram, Aggs: resp.Aggs, Code: resp.Code, Raw: resp}
	for _, is := range resp.IdSources {
		out.IDs = append(out.IDs, model.ID{MID: is.Id.Mid, RID: is.Id.Rid})
		out.Hints = append(out.Hints, is.Hint)
	}
	return out
}

func (s *Store) Search(r SearchReq) (*SearchRes, error) {
	resp, err := s.S.GrpcV1().Search(Ctx(r.SeqQL), r.Proto())
	if err != nil {
		return nil, err
	}
	return DecodeSearch(resp), nil
}

type fetchSink struct {
	pb.StoreApi_FetchServer
	ctx context.Context
	out []*pb.BinaryData
}

func (f *fetchSink) Send(m *pb.BinaryData) error { f.out = append(f.out, m.CloneVT()); return nil }
func (f *fetchSink) Context() context.Context    { return f.ctx }

func IDString(id model.ID) string {
	return seq.ID{MID: seq.MID(id.MID), RID: seq.RID(id.RID)}.String()
}

type FetchEntry struct {
	ID   model.ID
	Data []byte // nil/empty = not found
}

// Fetch drives the real streaming handler. hints may be nil or one per ID ("" = none).
func (s *Store) Fetch(ids []model.ID, hints []string, filter *pb.FetchRequest_FieldsFilter) ([]FetchEntry, error) {
	req := &pb.FetchRequest{FieldsFilter: filter}
	if hints != nil {
		for i, id := range ids {
			req.IdsWithHints = append(req.IdsWithHints, &pb.IdWithHint{Id: IDString(id), Hint: hints[i]})
		}
	} else {
		for _, id := range ids {
			req.Ids = append(req.Ids, IDString(id))
		}
	}
	sink := &fetchSink{ctx: context.Background()}
	if err := s.S.GrpcV1().Fetch(req, sink); err != nil {
		return nil, err
	}
	return DecodeFetch(sink.out)
}

func DecodeFetch(stream []*pb.BinaryData) ([]FetchEntry, error) {
	out := make([]FetchEntry, 0, len(stream))
	for _, m := range stream {
		blk := disk.DocBlock(m.Data)
		if len(blk) < disk.DocBlockHeaderLen {
			return nil, fmt.Errorf("fetch stream entry shorter than a block header (%d bytes)", len(blk))
		}
		payload, err := blk.DecompressTo(nil)
		if err != nil {
			return nil, fmt.Errorf("fetch stream entry does not decode: %w", err)
		}
		out = append(out, FetchEntry{ID: model.ID{MID: blk.GetExt1(), RID: blk.GetExt2()}, Data: payload})
	}
	return out, nil
}

// DecodeDocsBlock splits a decompressed docs payload (uint32 length prefix per document).
func DecodeDocsBlock(block []byte) ([][]byte, error) {
	raw, err := disk.DocBlock(block).DecompressTo(nil)
	if err != nil {
		return nil, err
	}
	var out [][]byte
	for len(raw) > 0 {
		if len(raw) < 4 {
			return nil, fmt.Errorf("truncated docs payload")
		}
		n := binary.LittleEndian.Uint32(raw)
		raw = raw[4:]
		if int(n) > len(raw) {
			return nil, fmt.Errorf("truncated document in docs payload")
		}
		out = append(out, raw[:n])
		raw = raw[n:]
	}
	return out, nil
}

// DecodeMetasBlock decodes a metas block into per-document metadata.
func DecodeMetasBlock(block []byte) ([]frac.MetaData, error) {
	raw, err := disk.DocBlock(block).DecompressTo(nil)
	if err != nil {
		return nil, err
	}
	var out []frac.MetaData
	for len(raw) > 0 {
		if len(raw) < 4 {
			return nil, fmt.Errorf("truncated metas payload")
		}
		n := binary.LittleEndian.Uint32(raw)
		raw = raw[4:]
		if int(n) > len(raw) {
			return nil, fmt.Errorf("truncated meta")
		}
		var md frac.MetaData
		if err := md.UnmarshalBinary(raw[:n]); err != nil {
			return nil, err
		}
		// copy out of the shared buffer
		cp := frac.MetaData{ID: md.ID, Size: md.Size}
		for _, t := range md.Tokens {
			cp.Tokens = append(cp.Tokens, frac.MetaToken{Key: slices.Clone(t.Key), Value: slices.Clone(t.Value)})
		}
		out = append(out, cp)
		raw = raw[n:]
	}
	return out, nil
}
