package sdb

import (
	"context"
	"fmt"
	"io"
	"path/filepath"
	"sync/atomic"

	"google.golang.org/grpc"
	"google.golang.org/grpc/codes"
	"google.golang.org/grpc/metadata"
	"google.golang.org/grpc/status"
	"google.golang.org/protobuf/types/known/emptypb"

	pb "github.com/ozontech/seq-db/pkg/storeapi"
	"github.com/ozontech/seq-db/proxy/search"
	"github.com/ozontech/seq-db/proxy/stores"
	"github.com/ozontech/seq-db/seq"
	"github.com/ozontech/seq-db/storeapi"

	"verif/internal/model"
)

// mdClient is the repository's in-memory StoreApiClient plus the one thing a real gRPC hop does for the proxy:
// outgoing metadata (use-seq-ql) arrives as incoming metadata at the store.
type mdClient struct {
	inner pb.StoreApiClient
	SeqQL *bool
	// DownForStart: while set, StartAsyncSearch on this host fails as an unreachable host would (the other calls work)
	DownForStart *atomic.Bool
}

func (c mdClient) ctx(ctx context.Context) context.Context {
	if md, ok := metadata.FromOutgoingContext(ctx); ok {
		return metadata.NewIncomingContext(ctx, md)
	}
	if c.SeqQL != nil {
		v := "false"
		if *c.SeqQL {
			v = "true"
		}
		return metadata.NewIncomingContext(ctx, metadata.Pairs("use-seq-ql", v))
	}
	return ctx
}

func (c mdClient) Bulk(ctx context.Context, in *pb.BulkRequest, o ...grpc.CallOption) (*emptypb.Empty, error) {
	return c.inner.Bulk(ctx, in)
}
func (c mdClient) Search(ctx context.Context, in *pb.SearchRequest, o ...grpc.CallOption) (*pb.SearchResponse, error) {
	return c.inner.Search(c.ctx(ctx), in)
}
func (c mdClient) StartAsyncSearch(ctx context.Context, in *pb.StartAsyncSearchRequest, o ...grpc.CallOption) (*pb.StartAsyncSearchResponse, error) {
	if c.DownForStart != nil && c.DownForStart.Load() {
		return nil, status.Error(codes.Unavailable, "verif: host is down")
	}
	return c.inner.StartAsyncSearch(c.ctx(ctx), in)
}
func (c mdClient) FetchAsyncSearchResult(ctx context.Context, in *pb.FetchAsyncSearchResultRequest, o ...grpc.CallOption) (*pb.FetchAsyncSearchResultResponse, error) {
	return c.inner.FetchAsyncSearchResult(c.ctx(ctx), in)
}
func (c mdClient) Fetch(ctx context.Context, in *pb.FetchRequest, o ...grpc.CallOption) (pb.StoreApi_FetchClient, error) {
	return c.inner.Fetch(ctx, in)
}
func (c mdClient) Status(ctx context.Context, in *pb.StatusRequest, o ...grpc.CallOption) (*pb.StatusResponse, error) {
	return c.inner.Status(ctx, in)
}

// Cluster = shards x replicas of real stores behind the real proxy search ingestor, wired with in-memory clients.
type Cluster struct {
	Stores  [][]*Store // [shard][replica]
	Ing     *search.Ingestor
	Clients map[string]pb.StoreApiClient
	Down    map[string]*atomic.Bool // host -> switch "down for StartAsyncSearch"
	SeqQL   bool                    // language the stores parse proxy queries with (what the use-seq-ql header would select)
}

func OpenCluster(dir string, shards, replicas int, o Opt) (*Cluster, error) {
	c := &Cluster{Clients: map[string]pb.StoreApiClient{}, Down: map[string]*atomic.Bool{}}
	hot := &stores.Stores{}
	for s := 0; s < shards; s++ {
		var reps []*Store
		var hosts []string
		for r := 0; r < replicas; r++ {
			st, err := Open(filepath.Join(dir, fmt.Sprintf("s%dr%d", s, r)), o)
			if err != nil {
				return nil, err
			}
			reps = append(reps, st)
			host := fmt.Sprintf("store-%d-%d", s, r)
			hosts = append(hosts, host)
			c.Down[host] = &atomic.Bool{}
			c.Clients[host] = mdClient{inner: storeapi.NewClient(st.S), SeqQL: &c.SeqQL, DownForStart: c.Down[host]}
		}
		c.Stores = append(c.Stores, reps)
		hot.Shards = append(hot.Shards, hosts)
		hot.Vers = append(hot.Vers, "verif")
	}
	empty := &stores.Stores{Shards: [][]string{}, Vers: []string{}}
	c.Ing = search.NewIngestor(search.Config{HotStores: hot, HotReadStores: empty, ReadStores: empty, WriteStores: empty}, c.Clients)
	return c, nil
}

func (c *Cluster) Stop() {
	for _, reps := range c.Stores {
		for _, st := range reps {
			st.Stop()
		}
	}
}

func (c *Cluster) Each(fn func(*Store)) {
	for _, reps := range c.Stores {
		for _, st := range reps {
			fn(st)
		}
	}
}

type ProxyReq struct {
	Query     string
	From, To  uint64
	Size      int
	Offset    int
	Asc       bool
	WithTotal bool
	Interval  uint64
	Aggs      []search.AggQuery
	Fetch     bool
}

type ProxyRes struct {
	QPR     *seq.QPR
	IDs     []model.ID
	Docs    [][]byte // one per ID when Fetch
	Partial bool
}

// Search drives the real proxy search ingestor (fan-out, merge, pagination, fetch stream merge).
func (c *Cluster) Search(r ProxyReq) (*ProxyRes, error) {
	ord := seq.DocsOrderDesc
	if r.Asc {
		ord = seq.DocsOrderAsc
	}
	sr := &search.SearchRequest{Q: []byte(r.Query), From: seq.MID(r.From), To: seq.MID(r.To), Size: r.Size, Offset: r.Offset,
		Interval: seq.MID(r.Interval), AggQ: r.Aggs, WithTotal: r.WithTotal, ShouldFetch: r.Fetch, Order: ord}
	qpr, it, _, err := c.Ing.Search(context.Background(), sr, nil)
	res := &ProxyRes{}
	if err != nil {
		if qpr == nil {
			return nil, err
		}
		res.Partial = true
	}
	res.QPR = qpr
	for _, id := range qpr.IDs {
		res.IDs = append(res.IDs, model.ID{MID: uint64(id.ID.MID), RID: uint64(id.ID.RID)})
	}
	if r.Fetch && it != nil {
		for range qpr.IDs {
			d, derr := it.Next()
			if derr == io.EOF {
				break
			}
			res.Docs = append(res.Docs, d.Data)
		}
	}
	return res, nil
}
