// Package hk is the harness side of the verifhook points compiled into /repo with the build tag verif:
// per-point hit counters, seeded delays, crash at the k-th hit, fault at the k-th hit, and an event log.
package hk

import (
	"fmt"
	"os"
	"runtime"
	"sort"
	"sync"
	"sync/atomic"
	"time"

	"github.com/ozontech/seq-db/verifhook"
)

type Ctl struct {
	Seed uint64

	// Delay: points at which a seeded delay (nothing / yield / short sleep) is injected. nil map = none; key "*" = all.
	Delay    map[string]bool
	MaxSleep time.Duration
	// Long: per-point upper bound of the sleep, overriding MaxSleep (rarely hit points inside narrow windows).
	Long map[string]time.Duration

	// Crash: the process exits (like SIGKILL: nothing is flushed) at the CrashAt-th hit of CrashPoint.
	CrashPoint string
	CrashAt    int64
	ExitCode   int

	// Fault: the FaultAt-th hit of FaultPoint returns an error.
	FaultPoint string
	FaultAt    int64

	// Events: when set, every AtFile event and every At hit of a point listed in LogPoints ("*" = all) is appended as one line.
	Events    *os.File
	LogPoints map[string]bool

	// Hold: the goroutine making the HoldAt-th hit of HoldPoint is parked forever (a worker frozen mid-way while the rest of
	// the process goes on); Held is closed when that happens.
	HoldPoint string
	HoldAt    int64
	Held      chan struct{}

	// OnAt is an optional extra observer (must be cheap and thread-safe).
	OnAt func(point string, n int64)

	counts sync.Map // point -> *int64
	evMu   sync.Mutex
	seq    atomic.Int64
}

func (c *Ctl) counter(point string) *int64 {
	if v, ok := c.counts.Load(point); ok {
		return v.(*int64)
	}
	v, _ := c.counts.LoadOrStore(point, new(int64))
	return v.(*int64)
}

func mix(z uint64) uint64 {
	z += 0x9e3779b97f4a7c15
	z = (z ^ (z >> 30)) * 0xbf58476d1ce4e5b9
	z = (z ^ (z >> 27)) * 0x94d049bb133111eb
	return z ^ (z >> 31)
}

func strHash(s string) uint64 {
	var hsh uint64 = 14695981039346656037
	for i := 0; i < len(s); i++ {
		hsh ^= uint64(s[i])
		hsh *= 1099511628211
	}
	return hsh
}

func (c *Ctl) logEvent(format string, args ...any) {
	if c.Events == nil {
		return
	}
	n := c.seq.Add(1)
	line := fmt.Sprintf("%d ", n) + fmt.Sprintf(format, args...) + "\n"
	c.evMu.Lock()
	c.Events.WriteString(line) // unbuffered write(2) per line: survives the os.Exit of a crash point
	c.evMu.Unlock()
}

func (c *Ctl) at(point string) {
	n := atomic.AddInt64(c.counter(point), 1)
	if c.LogPoints != nil && (c.LogPoints["*"] || c.LogPoints[point]) {
		c.logEvent("at %s %d", point, n)
	}
	if c.OnAt != nil {
		c.OnAt(point, n)
	}
	if c.CrashPoint == point && n == c.CrashAt {
		c.logEvent("crash %s %d", point, n)
		code := c.ExitCode
		if code == 0 {
			code = 77
		}
		os.Exit(code)
	}
	if c.HoldPoint == point && n == c.HoldAt {
		c.logEvent("hold %s %d", point, n)
		if c.Held != nil {
			close(c.Held)
		}
		select {}
	}
	if c.Delay != nil && (c.Delay["*"] || c.Delay[point]) {
		z := mix(c.Seed ^ strHash(point) ^ uint64(n)*0x9e3779b97f4a7c15)
		switch z % 4 {
		case 0:
		case 1:
			runtime.Gosched()
		default:
			ms := c.MaxSleep
			if ms == 0 {
				ms = 300 * time.Microsecond
			}
			if l, ok := c.Long[point]; ok {
				ms = l
			}
			time.Sleep(time.Duration(z>>8) % ms)
		}
	}
}

func (c *Ctl) atFile(point, file string, a, b int64) {
	c.logEvent("file %s %s %d %d", point, file, a, b)
	c.at(point)
}

func (c *Ctl) fault(point string) error {
	n := atomic.AddInt64(c.counter("fault:"+point), 1)
	if c.LogPoints != nil && (c.LogPoints["*"] || c.LogPoints["fault:"+point]) {
		c.logEvent("at fault:%s %d", point, n)
	}
	if c.CrashPoint == "fault:"+point && n == c.CrashAt {
		// a crash right before the write the fault point guards (mid-sequence crash)
		c.logEvent("crash fault:%s %d", point, n)
		code := c.ExitCode
		if code == 0 {
			code = 77
		}
		os.Exit(code)
	}
	if c.FaultPoint == point && n == c.FaultAt {
		c.logEvent("fault %s %d", point, n)
		return fmt.Errorf("verif: injected I/O error at %s (hit %d)", point, n)
	}
	return nil
}

// Install makes c the active handler.
func Install(c *Ctl) {
	verifhook.Set(&verifhook.Handler{At: c.at, AtFile: c.atFile, Fault: c.fault})
}

func Uninstall() { verifhook.Set(nil) }

// Counts returns a snapshot of the hit counters.
func (c *Ctl) Counts() map[string]int64 {
	out := map[string]int64{}
	c.counts.Range(func(k, v any) bool {
		out[k.(string)] = atomic.LoadInt64(v.(*int64))
		return true
	})
	return out
}

func (c *Ctl) Points() []string {
	var out []string
	for k := range c.Counts() {
		out = append(out, k)
	}
	sort.Strings(out)
	return out
}

// Enabled reports whether /repo was built with the hooks compiled in.
func Enabled() bool { return verifhook.Enabled }

// Log appends a harness event (ack, submit ...) to the same sequence-numbered event log the hooks write to.
func (c *Ctl) Log(format string, args ...any) { c.logEvent(format, args...) }
