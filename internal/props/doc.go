package props
