package props

import (
	"fmt"
	"math"
	"sort"

	pb "github.com/ozontech/seq-db/pkg/storeapi"
	"github.com/ozontech/seq-db/proxy/search"
	"github.com/ozontech/seq-db/seq"

	"verif/internal/h"
	"verif/internal/model"
)

var aggFuncs = []string{"count", "unique", "sum", "min", "max", "avg", "quantile"}

func pbAggFunc(fn string) pb.AggFunc {
	switch fn {
	case "count":
		return pb.AggFunc_AGG_FUNC_COUNT
	case "unique":
		return pb.AggFunc_AGG_FUNC_UNIQUE
	case "sum":
		return pb.AggFunc_AGG_FUNC_SUM
	case "min":
		return pb.AggFunc_AGG_FUNC_MIN
	case "max":
		return pb.AggFunc_AGG_FUNC_MAX
	case "avg":
		return pb.AggFunc_AGG_FUNC_AVG
	}
	return pb.AggFunc_AGG_FUNC_QUANTILE
}

func seqAggFunc(fn string) seq.AggFunc {
	switch fn {
	case "count":
		return seq.AggFuncCount
	case "unique":
		return seq.AggFuncUnique
	case "sum":
		return seq.AggFuncSum
	case "min":
		return seq.AggFuncMin
	case "max":
		return seq.AggFuncMax
	case "avg":
		return seq.AggFuncAvg
	}
	return seq.AggFuncQuantile
}

func genAgg(r *h.Rng) model.AggReq {
	a := model.AggReq{Func: h.Pick(r, aggFuncs)}
	switch a.Func {
	case "count", "unique":
		a.GroupBy = h.Pick(r, []string{"g1", "g2", "g2"})
	default:
		a.Field = h.Pick(r, []string{"v1", "v1", "v2"})
		if r.Bool() {
			a.GroupBy = h.Pick(r, []string{"g1", "g2"})
		}
	}
	if a.Func == "quantile" {
		n := r.Range(1, 4)
		for i := 0; i < n; i++ {
			a.Quantiles = append(a.Quantiles, h.Pick(r, []float64{0, 1, 0.5, 0.5, 0.9, 0.99, 0.25, 0.01, 0.999, 0.75}))
		}
	}
	if a.Func != "unique" && r.Chance(1, 3) {
		a.Interval = uint64(h.Pick(r, []int{1, 3, 10, 100, 1000, 60000, 86400000}))
	}
	return a
}

func aggToPB(a model.AggReq) *pb.AggQuery {
	return &pb.AggQuery{Field: a.Field, GroupBy: a.GroupBy, Func: pbAggFunc(a.Func), Quantiles: a.Quantiles, Interval: int64(a.Interval)}
}

func aggToProxy(a model.AggReq) search.AggQuery {
	return search.AggQuery{Field: a.Field, GroupBy: a.GroupBy, Func: seqAggFunc(a.Func), Quantiles: a.Quantiles, Interval: seq.MID(a.Interval)}
}

func nontrivialQuantiles(qs []float64) bool {
	for _, q := range qs {
		if q > 0 && q < 1 {
			return true
		}
	}
	return false
}

// compareSamples checks per-bin summaries (the mergeable partial result) against the model. Returns "" when equal.
func compareSamples(exp model.AggRes, a model.AggReq, bins map[seq.AggBin]*seq.SamplesContainer, notExists int64) string {
	if notExists != exp.NotExists {
		return fmt.Sprintf("not_exists got=%d expected=%d", notExists, exp.NotExists)
	}
	neByGroup := map[string]int64{}
	seen := map[model.BinKey]bool{}
	for k, v := range bins {
		mk := model.BinKey{MID: uint64(k.MID), Group: k.Token}
		if a.Func == "count" && k.Token == "_not_exists" && k.MID == 0 {
			if v.Total != exp.NotExists {
				return fmt.Sprintf("_not_exists bin total=%d expected=%d", v.Total, exp.NotExists)
			}
			continue
		}
		neByGroup[k.Token] += v.NotExists
		e := exp.Bins[mk]
		if e == nil {
			if v.Total != 0 {
				return fmt.Sprintf("unexpected bin %v total=%d", mk, v.Total)
			}
			if a.Func == "unique" {
				return fmt.Sprintf("unexpected unique value %q", k.Token)
			}
			continue
		}
		seen[mk] = true
		switch a.Func {
		case "unique":
		case "count":
			if v.Total != e.Total {
				return fmt.Sprintf("bin %v count got=%d expected=%d", mk, v.Total, e.Total)
			}
		default:
			if v.Total != e.Total {
				return fmt.Sprintf("bin %v total got=%d expected=%d", mk, v.Total, e.Total)
			}
			if v.Min != e.Min || v.Max != e.Max {
				return fmt.Sprintf("bin %v min/max got=%v/%v expected=%v/%v", mk, v.Min, v.Max, e.Min, e.Max)
			}
			if !model.Close(v.Sum, e.Sum, e.SumAbs) {
				return fmt.Sprintf("bin %v sum got=%v expected=%v", mk, v.Sum, e.Sum)
			}
			if a.Func == "quantile" && nontrivialQuantiles(a.Quantiles) && e.Total <= 8096 {
				got := append([]float64{}, v.Samples...)
				sort.Float64s(got)
				if len(got) != len(e.Samples) {
					return fmt.Sprintf("bin %v samples got=%d expected=%d", mk, len(got), len(e.Samples))
				}
				for i := range got {
					if got[i] != e.Samples[i] {
						return fmt.Sprintf("bin %v sample[%d] got=%v expected=%v", mk, i, got[i], e.Samples[i])
					}
				}
			}
		}
	}
	for mk := range exp.Bins {
		if !seen[mk] {
			return fmt.Sprintf("missing bin %v", mk)
		}
	}
	if a.Func != "count" && a.Func != "unique" {
		for g, n := range exp.NotExistsByGroup {
			if neByGroup[g] != n {
				return fmt.Sprintf("group %q not_exists got=%d expected=%d", g, neByGroup[g], n)
			}
		}
		for g, n := range neByGroup {
			if n != exp.NotExistsByGroup[g] {
				return fmt.Sprintf("group %q not_exists got=%d expected=%d", g, n, exp.NotExistsByGroup[g])
			}
		}
	}
	return ""
}

func pbAggToBins(agg *pb.SearchResponse_Agg) map[seq.AggBin]*seq.SamplesContainer {
	out := map[seq.AggBin]*seq.SamplesContainer{}
	for _, b := range agg.Timeseries {
		k := seq.AggBin{MID: seq.MID(b.Ts.AsTime().UnixMilli()), Token: b.Label}
		out[k] = &seq.SamplesContainer{Min: b.Hist.Min, Max: b.Hist.Max, Sum: b.Hist.Sum, Total: b.Hist.Total, Samples: b.Hist.Samples, NotExists: b.Hist.NotExists}
	}
	return out
}

// compareBuckets checks the rendered public aggregation (what ComplexSearch/GetAggregation expose) against the model.
func compareBuckets(exp model.AggRes, a model.AggReq, res seq.AggregationResult) string {
	seen := map[model.BinKey]bool{}
	for _, b := range res.Buckets {
		mk := model.BinKey{MID: uint64(b.MID), Group: b.Name}
		if a.Func == "count" && b.Name == "_not_exists" && b.MID == 0 {
			continue
		}
		e := exp.Bins[mk]
		if e == nil {
			// a bucket that only carries not-exists counts renders as NaN (stat) – anything else is a phantom value
			if a.Func == "count" || a.Func == "unique" || !math.IsNaN(b.Value) {
				return fmt.Sprintf("unexpected bucket %v value=%v", mk, b.Value)
			}
			continue
		}
		seen[mk] = true
		want := e.Value(a.Func, a.Quantiles)
		// beyond 8096 samples per bucket inner quantiles are estimates by design (the statement's bound); 0 and 1 stay exact (min/max)
		approx := a.Func == "quantile" && e.Total > 8096
		if approx && len(a.Quantiles) > 0 && (a.Quantiles[0] == 0 || a.Quantiles[0] == 1) {
			approx = false
		}
		if !approx && !model.Close(b.Value, want, e.SumAbs) {
			return fmt.Sprintf("bucket %v value got=%v expected=%v", mk, b.Value, want)
		}
		if a.Func == "quantile" && e.Total > 8096 {
			for i, q := range a.Quantiles {
				if (q == 0 || q == 1) && i < len(b.Quantiles) {
					if w := e.Quantile(q); b.Quantiles[i] != w {
						return fmt.Sprintf("bucket %v quantile(%v) got=%v expected=%v", mk, q, b.Quantiles[i], w)
					}
				}
			}
		}
		if a.Func == "quantile" && e.Total <= 8096 {
			if len(b.Quantiles) != len(a.Quantiles) {
				return fmt.Sprintf("bucket %v quantiles got=%d expected=%d", mk, len(b.Quantiles), len(a.Quantiles))
			}
			for i, q := range a.Quantiles {
				if w := e.Quantile(q); b.Quantiles[i] != w {
					return fmt.Sprintf("bucket %v quantile(%v) got=%v expected=%v", mk, q, b.Quantiles[i], w)
				}
			}
		}
	}
	for mk := range exp.Bins {
		if !seen[mk] {
			if a.Interval > 0 && mk.MID == 0 {
				continue // untimed bins are not presented for time series
			}
			return fmt.Sprintf("missing bucket %v", mk)
		}
	}
	return ""
}
