package props

import (
	"bytes"
	"fmt"
	"sort"
	"strings"
	"time"

	"verif/internal/gen"
	"verif/internal/h"
	"verif/internal/model"
	"verif/internal/sdb"
)

// C04 — fetch returns each stored document verbatim; unknown IDs are just "not found".

func init() {
	h.Register(&h.Prop{
		ID:    "C04",
		Level: "exploration",
		Rule: "case = (corpus with document sizes from 2 B to 1 MiB spread over 1..4 active/sealed fractions, list of distinct IDs mixing present and absent ones " +
			"(absent: far away, neighbours of stored IDs, fraction-border timestamps with smaller/larger random part, below/above everything), order, hint mode); " +
			"driven through the real streaming Fetch handler; non-trivial = list has both present and absent IDs or spans >1 fraction; " +
			"distinct = (forms, size class of the list, present/absent ratio class, absent kinds, order, hint mode, doc size class)",
		Assumptions: []string{
			"a hint that names the wrong fraction for a stored document is a client error: only position, ID, no-error and liveness are judged for such entries",
		},
		Batches: tiered(192, 3200),
		Run:     runC04,
		Timeout: timeoutFor(3*time.Minute, 40*time.Minute),
	})
}

func runC04(w *h.W, batch int) {
	r := w.Rng()
	nCorp, perCorp := 4, 50
	for ci := 0; ci < nCorp; ci++ {
		cr := r.Fork()
		sizeClass := h.Pick(cr, []string{"tiny", "tiny", "small", "mixed", "big"})
		n := cr.LogInt(1, 700)
		if sizeClass == "big" {
			n = cr.Range(2, 24)
		}
		if !w.Quick() && cr.Chance(1, 12) {
			n = 4096*cr.Range(1, 2) + cr.Range(-1, 1)
			sizeClass = "tiny"
		}
		corp := gen.MakeCorpus(cr, gen.CorpusOpt{N: n, Vocab: 4, MIDSpread: cr.LogInt(2, 2000), SmallRID: cr.Chance(1, 3), MaxToks: 1, Tag: fmt.Sprintf("b%dc%d", batch, ci)})
		for i, d := range corp.Docs {
			switch sizeClass {
			case "tiny":
				if cr.Chance(2, 3) {
					d.Body = []byte("{}")
				} else {
					d.Body = []byte(fmt.Sprintf(`{"i":%d}`, i))
				}
			case "small":
			case "mixed":
				d.Body = append(d.Body[:len(d.Body)-1], []byte(`,"p":"`+strings.Repeat("m", cr.LogInt(0, 200000))+`"}`)...)
			case "big":
				d.Body = append(d.Body[:len(d.Body)-1], []byte(`,"p":"`+strings.Repeat("B", cr.Range(300000, 1100000))+`"}`)...)
			}
		}
		st, err := sdb.Open(w.Sub(fmt.Sprintf("c%d", ci)), sdb.Opt{Mapping: StoreMapping(), DocBlockSize: h.Pick(cr, []int{1024, 65536, 4 << 20}), SkipSortDocs: cr.Chance(1, 4)})
		if err != nil {
			if w.Begin(map[string]any{"step": "open"}) {
				w.Violation("C04:store-did-not-start", map[string]any{"error": err.Error()})
			}
			continue
		}
		k := cr.Range(1, 4)
		groups := splitDocs(cr, corp.Docs, k, h.Pick(cr, layoutRules))
		forms, lerr := loadFractions(st, cr, groups)
		if lerr != nil {
			if w.Begin(map[string]any{"step": "ingest"}) {
				w.Violation("C04:bulk-error", map[string]any{"error": lerr.Error()})
			}
			st.Stop()
			continue
		}
		byID := map[model.ID]*model.Doc{}
		for _, d := range corp.Docs {
			byID[d.ID] = d
		}
		// fraction names (hints) as a search reports them
		hintOf := map[model.ID]string{}
		if res, err := st.Search(sdb.SearchReq{Query: "_all_:*", From: 0, To: 1 << 62, Size: len(corp.Docs) + 10}); err == nil {
			for i, id := range res.IDs {
				hintOf[id] = res.Hints[i]
			}
		}
		var hintNames []string
		seenH := map[string]bool{}
		for _, hn := range hintOf {
			if !seenH[hn] {
				seenH[hn] = true
				hintNames = append(hintNames, hn)
			}
		}
		sort.Strings(hintNames)
		// fraction borders
		var borders []uint64
		for _, g := range groups {
			lo, hi := ^uint64(0), uint64(0)
			for _, d := range g {
				lo, hi = min(lo, d.ID.MID), max(hi, d.ID.MID)
			}
			borders = append(borders, lo, hi)
		}
		sorted := append([]*model.Doc{}, corp.Docs...)
		sort.Slice(sorted, func(i, j int) bool { return sorted[i].ID.Less(sorted[j].ID) })
		corpusDesc := fmt.Sprintf("N=%d sizes=%s forms=%s", n, sizeClass, forms)

		for li := 0; li < perCorp; li++ {
			lr := cr.Fork()
			total := lr.LogInt(1, 3000)
			if !w.Quick() && lr.Chance(1, 40) {
				total = lr.Range(50000, 100000)
			}
			pPresent := h.Pick(lr, []int{0, 1, 5, 50, 95, 100})
			used := map[model.ID]bool{}
			var ids []model.ID
			kinds := map[string]bool{}
			absent := func() (model.ID, string) {
				switch lr.Intn(6) {
				case 0:
					return model.ID{MID: lr.U64() >> 2, RID: lr.U64()}, "far"
				case 1:
					d := h.Pick(lr, corp.Docs)
					return model.ID{MID: d.ID.MID, RID: d.ID.RID + uint64(lr.Range(1, 3))}, "rid-neighbour"
				case 2:
					b := h.Pick(lr, borders)
					return model.ID{MID: b, RID: uint64(lr.Intn(2)) * (^uint64(0))}, "border-minmax-rid" // RID 0 or 2^64-1
				case 3:
					if lr.Bool() {
						return model.ID{MID: corp.MinMID - uint64(lr.Range(1, 5)), RID: lr.U64()}, "below-all"
					}
					return model.ID{MID: corp.MaxMID + uint64(lr.Range(1, 5)), RID: lr.U64()}, "above-all"
				case 4:
					i := lr.Intn(len(sorted))
					a := sorted[i].ID
					return model.ID{MID: a.MID, RID: a.RID - 1}, "just-below-stored"
				default:
					b := h.Pick(lr, borders)
					return model.ID{MID: b, RID: lr.U64()}, "border-mid"
				}
			}
			nPresent, nAbsent := 0, 0
			for len(ids) < total {
				if lr.Intn(100) < pPresent && nPresent < len(corp.Docs) {
					d := h.Pick(lr, corp.Docs)
					if used[d.ID] {
						// pick the next unused one deterministically
						found := false
						for _, e := range corp.Docs {
							if !used[e.ID] {
								d, found = e, true
								break
							}
						}
						if !found {
							continue
						}
					}
					used[d.ID] = true
					ids = append(ids, d.ID)
					nPresent++
				} else {
					id, kind := absent()
					if used[id] || byID[id] != nil {
						continue
					}
					used[id] = true
					kinds[kind] = true
					ids = append(ids, id)
					nAbsent++
				}
			}
			order := h.Pick(lr, []string{"desc", "asc", "random"})
			switch order {
			case "desc":
				sort.Slice(ids, func(i, j int) bool { return ids[j].Less(ids[i]) })
			case "asc":
				sort.Slice(ids, func(i, j int) bool { return ids[i].Less(ids[j]) })
			}
			hintMode := h.Pick(lr, []string{"none", "none", "right", "mixed-wrong", "unknown"})
			var hints []string
			wrongHint := map[int]bool{}
			if hintMode != "none" {
				hints = make([]string, len(ids))
				for i, id := range ids {
					switch hintMode {
					case "right":
						hints[i] = hintOf[id] // "" for absent ones
						if hints[i] == "" && len(hintNames) > 0 && lr.Bool() {
							hints[i] = h.Pick(lr, hintNames)
						}
					case "mixed-wrong":
						if len(hintNames) > 0 && lr.Bool() {
							hints[i] = h.Pick(lr, hintNames)
							if byID[id] != nil && hints[i] != hintOf[id] {
								wrongHint[i] = true
							}
						} else {
							hints[i] = hintOf[id]
						}
					case "unknown":
						if lr.Bool() {
							hints[i] = "seq-db-01NOSUCHFRACTION0000000000"
							if byID[id] != nil {
								wrongHint[i] = true
							}
						} else {
							hints[i] = hintOf[id]
						}
					}
				}
			}
			var kl []string
			for k := range kinds {
				kl = append(kl, k)
			}
			sort.Strings(kl)
			desc := map[string]any{"corpus": corpusDesc, "ids": len(ids), "present": nPresent, "absent": nAbsent, "absent_kinds": kl, "order": order, "hints": hintMode,
				"first_ids": fmtIDs(ids, 6)}
			if !w.Begin(desc) {
				continue
			}
			got, err := st.Fetch(ids, hints, nil)
			w.Count("fetch_calls", 1)
			w.Count("ids_requested", int64(len(ids)))
			if err != nil {
				w.Violation("C04:error-returned:"+errSig(err.Error()), map[string]any{"error": err.Error(), "case": desc})
				continue
			}
			bad := ""
			if len(got) != len(ids) {
				bad = fmt.Sprintf("stream has %d entries for %d requested IDs", len(got), len(ids))
			}
			for i := 0; bad == "" && i < len(ids); i++ {
				if got[i].ID != ids[i] {
					bad = fmt.Sprintf("entry %d carries ID %s, requested %s", i, got[i].ID, ids[i])
					break
				}
				d := byID[ids[i]]
				switch {
				case d == nil:
					if len(got[i].Data) != 0 {
						bad = fmt.Sprintf("entry %d: absent ID %s returned %d bytes: %.80q", i, ids[i], len(got[i].Data), got[i].Data)
					}
				case wrongHint[i]:
					if len(got[i].Data) != 0 && !bytes.Equal(got[i].Data, d.Body) {
						bad = fmt.Sprintf("entry %d: ID %s returned bytes of another document", i, ids[i])
					}
				default:
					if !bytes.Equal(got[i].Data, d.Body) {
						bad = fmt.Sprintf("entry %d: ID %s returned %d bytes %.60q, stored %d bytes %.60q", i, ids[i], len(got[i].Data), got[i].Data, len(d.Body), d.Body)
					}
				}
			}
			if bad != "" {
				w.Violation("C04:wrong-entry", map[string]any{"diff": bad, "case": desc})
				continue
			}
			nontrivial := (nPresent > 0 && nAbsent > 0) || len(groups) > 1
			if nontrivial && w.WantSample() {
				w.Sample(desc)
			}
			szc := "1"
			switch {
			case len(ids) > 10000:
				szc = ">10k"
			case len(ids) > 1000:
				szc = ">1000"
			case len(ids) > 50:
				szc = ">50"
			case len(ids) > 1:
				szc = ">1"
			}
			w.Held(fmt.Sprintf("%s|%s|p%d|%s|%s|%s|%s", forms, szc, pPresent, strings.Join(kl, "+"), order, hintMode, sizeClass), nontrivial)
		}
		st.Stop()
	}
}
