package props

import (
	"fmt"
	"os"
	"os/exec"
	"path/filepath"
	"sort"
	"strings"
	"time"

	"verif/internal/gen"
	"verif/internal/h"
	"verif/internal/model"
)

// C08 — sealing is all-or-nothing under crashes and I/O errors.

func init() {
	h.Register(&h.Prop{
		ID:    "C08",
		Level: "fault_enumeration",
		Rule: "per corpus (1..3000 documents, sorted-docs on/off, small doc blocks): a dry run of one seal counts the hits of every fault point (each sorted-docs block write/flush, each index block, registry and header write, each sync and rename) and crash point " +
			"(temp files created, mid-write, before/after each sync and rename, directory sync, publication, meta removal, docs removal); then, each from a pristine copy of the pre-seal directory in a fresh process: " +
			"(a) the k-th hit of each fault point returns an I/O error, for every k; (b) the process crashes at the k-th hit of each crash point, followed by a power-loss variant (files not covered by a completed sync truncated to a seeded length). " +
			"oracle after restart (twice): the store comes up and every document is listed, found by its tokens and fetched byte-identical; offline check of the hook event log: no rename to .index/.sdocs without a completed sync of the temp file, " +
			"no removal of .meta/.docs before sync+rename+directory-sync of the index, nothing published or removed after an injected fault; the clean seal also runs under strace with the same two rules judged on the syscalls themselves (writes covered by a completed fsync before the rename; directory fsync after the index rename before the unlinks). " +
			"case = one (corpus, fault or crash point, k); non-trivial = the injection point was reached; distinct = (point, k, configuration)",
		Assumptions: []string{"crash = os.Exit in a hook; power loss = truncation of files whose content no completed sync covers; directory-entry durability not modelled"},
		Batches:     tiered(48, 640),
		Run:         runC08,
		Timeout:     timeoutFor(3*time.Minute, 45*time.Minute),
	})
}

func copyDir(src, dst string) error {
	os.RemoveAll(dst)
	return exec.Command("cp", "-a", src, dst).Run()
}

var c08FaultPoints = []string{"seal.sdocs.block", "seal.sdocs.flush", "seal.sync", "seal.rename", "disk.index.block", "disk.index.registry", "disk.index.header"}
var c08CrashPoints = []string{"seal.sdocs.created", "seal.sdocs.flushed", "seal.sync.before", "seal.sync.done", "seal.renamed", "seal.index.created", "disk.index.registry.written", "seal.index.written",
	"seal.dir.before_sync", "seal.dir.synced", "pfrac.seal.before_publish", "pfrac.seal.published", "active.release.begin", "active.remove.meta", "active.release.meta_removed", "active.remove.docs", "fm.seal.installed",
	"fault:disk.index.block", "fault:seal.sdocs.block", "fault:disk.index.registry", "fault:disk.index.header"}

// checkSealOrder is the offline file-set invariant over the hook events of one process lifetime.
func checkSealOrder(events []hookEvent) string {
	synced := map[string]bool{}   // temp file name -> sync completed
	renamed := map[string]int64{} // final name -> seq
	dirSynced := int64(0)
	var faultSeq int64
	for _, e := range events {
		switch {
		case e.Kind == "fault":
			faultSeq = e.Seq
		case e.Kind == "file" && e.Point == "seal.sync.done":
			synced[e.File] = true
		case e.Kind == "file" && e.Point == "seal.renamed":
			tmp := strings.Replace(strings.Replace(e.File, ".sdocs", "._sdocs", 1), ".index", "._index", 1)
			if !synced[tmp] {
				return fmt.Sprintf("%s renamed into place (event %d) without a completed sync of %s", filepath.Base(e.File), e.Seq, filepath.Base(tmp))
			}
			if faultSeq > 0 {
				return fmt.Sprintf("%s published (event %d) although a write of the seal failed (event %d)", filepath.Base(e.File), e.Seq, faultSeq)
			}
			renamed[e.File] = e.Seq
		case e.Kind == "file" && e.Point == "seal.dir.synced":
			dirSynced = e.Seq
		case e.Kind == "file" && (e.Point == "active.remove.meta" || e.Point == "active.remove.docs"):
			base := strings.TrimSuffix(strings.TrimSuffix(e.File, ".meta"), ".docs")
			if faultSeq > 0 {
				return fmt.Sprintf("%s removed (event %d) although a write of the seal failed (event %d)", filepath.Base(e.File), e.Seq, faultSeq)
			}
			ri := renamed[base+".index"]
			if ri == 0 || dirSynced < ri {
				return fmt.Sprintf("%s removed (event %d) before the index was synced, renamed and the directory synced (rename event %d, dir sync event %d)", filepath.Base(e.File), e.Seq, ri, dirSynced)
			}
		}
	}
	return ""
}

// tearSealFiles: files of the seal that no completed sync covers may have lost any suffix.
func tearSealFiles(r *h.Rng, dir string, events []hookEvent, mode string) []string {
	synced := map[string]bool{}
	for _, e := range events {
		if e.Kind == "file" && e.Point == "seal.sync.done" {
			synced[e.File] = true
			synced[strings.Replace(strings.Replace(e.File, "._sdocs", ".sdocs", 1), "._index", ".index", 1)] = true
		}
	}
	var out []string
	files, _ := filepath.Glob(filepath.Join(dir, "seq-db-*"))
	sort.Strings(files)
	for _, f := range files {
		sfx := filepath.Ext(f)
		if sfx != "._sdocs" && sfx != "._index" && sfx != ".sdocs" && sfx != ".index" {
			continue
		}
		if synced[f] || mode == "none" {
			continue
		}
		st, err := os.Stat(f)
		if err != nil || st.Size() == 0 {
			continue
		}
		var to int64
		switch mode {
		case "max":
			to = 0
		default:
			to = int64(r.Intn(int(st.Size()) + 1))
		}
		if to < st.Size() {
			os.Truncate(f, to)
			out = append(out, fmt.Sprintf("%s: %d -> %d", sfx, st.Size(), to))
		}
	}
	return out
}

func runC08(w *h.W, batch int) {
	r := w.Rng()
	work := w.Sub("c08")
	pristine := filepath.Join(work, "pristine")
	os.MkdirAll(pristine, 0o755)
	opt := phaseOpt{SkipSortDocs: batch%3 == 2, DocBlockSize: h.Pick(r, []int{512, 2048, 65536})}
	n := r.LogInt(1, 400)
	if batch%4 == 3 {
		n = r.Range(1500, 3000)
	}
	corp := gen.MakeCorpus(r, gen.CorpusOpt{N: n, Vocab: r.Range(2, 30), MIDSpread: r.LogInt(2, 1000), MaxToks: 2, Tag: fmt.Sprintf("b%d", batch)})
	if batch%4 == 1 {
		// a token dictionary of several 16 KiB blocks: blocks are then flushed by the size threshold, not only at the end of a field
		for i, d := range corp.Docs {
			d.Toks = append(d.Toks, model.Tok{F: "k2", V: fmt.Sprintf("unique-long-token-value-%06d-%s", i, strings.Repeat("x", r.Range(10, 60)))})
		}
		for len(corp.Docs) < 700 {
			i := len(corp.Docs)
			corp.Docs = append(corp.Docs, &model.Doc{ID: model.ID{MID: gen.T0 + uint64(r.Intn(1000)), RID: r.U64()}, Body: []byte(fmt.Sprintf(`{"fill":%d}`, i)),
				Toks: []model.Tok{{F: "k2", V: fmt.Sprintf("unique-long-token-value-%06d-%s", i, strings.Repeat("y", r.Range(10, 60)))}, {F: "k1", V: "fill"}}})
		}
	}
	nb := r.Range(1, 4)
	var known []int
	var steps []phaseStep
	per := (len(corp.Docs) + nb - 1) / nb
	for i := 0; i < nb; i++ {
		lo, hi := i*per, min(len(corp.Docs), (i+1)*per)
		if lo >= hi {
			break
		}
		writeBulkFile(work, i, corp.Docs[lo:hi])
		known = append(known, i)
		steps = append(steps, phaseStep{Op: "bulk", Bulk: i})
	}
	cfg := fmt.Sprintf("docs=%d skip_sort_docs=%v doc_block=%d", len(corp.Docs), opt.SkipSortDocs, opt.DocBlockSize)
	run := func(name, dir string, spec phaseSpec) (h.PhaseResult, []phaseEvent, []hookEvent) {
		spec.Dir, spec.Work, spec.Opt = dir, work, opt
		spec.Out = filepath.Join(work, name+".out")
		spec.Events = filepath.Join(work, name+".events")
		os.Remove(spec.Out)
		os.Remove(spec.Events)
		sp := filepath.Join(work, name+".spec")
		writeSpec(sp, spec)
		res := h.SpawnPhase(work, "store", 2*time.Minute, nil, sp)
		return res, readPhaseOut(spec.Out), readEvents(spec.Events)
	}
	// 1. build the pre-seal state
	res, evs, _ := run("build", pristine, phaseSpec{Steps: steps})
	acked := 0
	for _, e := range evs {
		if e.Ev == "ack" {
			acked++
		}
	}
	if res.ExitCode != 0 || acked != len(known) {
		if w.Begin(map[string]any{"step": "build", "config": cfg}) {
			w.Violation("C08:build-failed", map[string]any{"exit": res.ExitCode, "stderr": res.Stderr})
		}
		return
	}
	// 2. dry run: count the hits of every point during one successful seal
	dry := filepath.Join(work, "dry")
	copyDir(pristine, dry)
	res, evs, hev := run("dry", dry, phaseSpec{Steps: []phaseStep{{Op: "seal"}, {Op: "verify"}}, Known: known, LogPoints: true})
	hits := map[string]int64{}
	for _, e := range evs {
		if e.Ev == "done" {
			hits = e.Counts
		}
	}
	if w.Begin(map[string]any{"step": "dry-run seal + verify", "config": cfg}) {
		bad := judgeVerify(evs, known, res)
		if bad == "" {
			bad = checkSealOrder(hev)
		}
		if bad != "" {
			w.Violation("C08:clean-seal:"+errSig(bad), map[string]any{"diff": bad, "config": cfg})
		} else {
			w.Held("dry|"+cfg, true)
		}
	}
	// 2b. the same clean seal under strace: publication order at the syscall level (independent of the hooks)
	sdesc := map[string]any{"step": "clean seal under strace", "config": cfg}
	if w.Begin(sdesc) {
		sdir := filepath.Join(work, "strace")
		copyDir(pristine, sdir)
		spec := phaseSpec{Steps: []phaseStep{{Op: "seal"}}, Known: known, Dir: sdir, Work: work, Opt: opt, Out: filepath.Join(work, "strace.out"), Events: filepath.Join(work, "strace.events")}
		os.Remove(spec.Out)
		os.Remove(spec.Events)
		sp := filepath.Join(work, "strace.spec")
		writeSpec(sp, spec)
		trace := filepath.Join(work, "strace.trace")
		os.Remove(trace)
		sres := h.SpawnPhaseWrapped(work, []string{"strace", "-f", "-o", trace, "-e", straceDurabilityTrace}, "store", 3*time.Minute, nil, sp)
		rd := checkRenameDurability(trace,
			func(dst string) bool { return strings.HasSuffix(dst, ".sdocs") || strings.HasSuffix(dst, ".index") },
			func(dst string) []string {
				if base, ok := strings.CutSuffix(dst, ".index"); ok {
					return []string{base + ".meta", base + ".docs"}
				}
				return nil
			})
		w.Count("strace_publications_checked", int64(rd.Renames))
		w.Count("strace_removals_checked", int64(rd.Unlinks))
		switch {
		case rd.Violation != "":
			w.Violation("C08:syscall-order", map[string]any{"diff": rd.Violation, "config": cfg})
		case sres.TimedOut || sres.ExitCode != 0 || rd.Renames == 0 || !rd.Recognised || rd.Unlinks == 0:
			w.Inconclusive(fmt.Sprintf("strace monitor: exit=%d renames=%d removals=%d writes recognised=%v", sres.ExitCode, rd.Renames, rd.Unlinks, rd.Recognised))
		default:
			w.Held(fmt.Sprintf("strace|%v|%d", opt.SkipSortDocs, rd.Renames), true)
		}
	}
	type inj struct {
		kind, point string
		k           int64
	}
	var plan []inj
	for _, p := range c08FaultPoints {
		for k := int64(1); k <= hits["fault:"+p]; k++ {
			plan = append(plan, inj{"fault", p, k})
		}
	}
	for _, p := range c08CrashPoints {
		for k := int64(1); k <= hits[p]; k++ {
			plan = append(plan, inj{"crash", p, k})
		}
	}
	// bound the work per batch: all points, k thinned evenly when a point has many hits
	maxPerPoint := int64(12)
	if !w.Quick() {
		maxPerPoint = 60
	}
	var thin []inj
	for _, in := range plan {
		total := hits[in.point]
		if in.kind == "fault" {
			total = hits["fault:"+in.point]
		}
		if total > maxPerPoint {
			step := (total + maxPerPoint - 1) / maxPerPoint
			if in.k != 1 && in.k != total && (in.k-1)%step != 0 {
				continue
			}
		}
		thin = append(thin, in)
	}
	scratch := filepath.Join(work, "case")
	for _, in := range thin {
		desc := map[string]any{"config": cfg, "inject": in.kind, "point": in.point, "k": in.k, "hits_in_clean_seal": hits[in.point] + hits["fault:"+in.point]}
		if !w.Begin(desc) {
			continue
		}
		copyDir(pristine, scratch)
		spec := phaseSpec{Steps: []phaseStep{{Op: "seal"}}, Known: known}
		if in.kind == "fault" {
			spec.FaultPoint, spec.FaultAt = in.point, in.k
		} else {
			spec.CrashPoint, spec.CrashAt = in.point, in.k
		}
		res, _, hev := run("inject", scratch, spec)
		reached := false
		for _, e := range hev {
			if (e.Kind == "fault" || e.Kind == "crash") && e.N == in.k {
				reached = true
			}
		}
		bad := checkSealOrder(hev)
		class := "file-order"
		var tear []string
		if bad == "" {
			if in.kind == "crash" && res.ExitCode == 77 {
				tear = tearSealFiles(r, scratch, hev, h.Pick(r, []string{"none", "max", "mid", "mid"}))
			}
			desc["exit_code_of_sealing_process"] = res.ExitCode
			desc["torn"] = tear
			// two restarts: the second one sees whatever the first start cleaned up or re-sealed
			for rs := 1; rs <= 2 && bad == ""; rs++ {
				res2, evs2, _ := run(fmt.Sprintf("restart%d", rs), scratch, phaseSpec{Steps: []phaseStep{{Op: "verify"}}, Known: known})
				if s := judgeVerify(evs2, known, res2); s != "" {
					bad = fmt.Sprintf("restart %d after %s at %s#%d (torn %v): %s", rs, in.kind, in.point, in.k, tear, s)
					class = "docs-lost"
					if strings.Contains(s, "did not come up") {
						class = "store-did-not-start:" + h.CrashFrame(res2.Stderr)
					}
				}
				w.Count("restarts_verified", 1)
			}
		}
		w.Count("injections", 1)
		if reached {
			w.Count("injections_reached", 1)
			w.Distinct("points_reached", in.kind+":"+in.point)
		}
		if bad != "" {
			w.Violation("C08:"+class+":"+in.kind+":"+in.point, map[string]any{"diff": bad, "case": desc})
			continue
		}
		if reached && w.WantSample() {
			w.Sample(desc)
		}
		w.Held(fmt.Sprintf("%s|%s|%d|%s", in.kind, in.point, in.k, cfg), reached)
	}
}

// judgeVerify: the store must have come up and every known bulk must be completely served.
func judgeVerify(evs []phaseEvent, known []int, res h.PhaseResult) string {
	ready := false
	var ver *phaseEvent
	for i := range evs {
		if evs[i].Ev == "ready" {
			ready = true
		}
		if evs[i].Ev == "verify" {
			ver = &evs[i]
		}
	}
	if !ready {
		return fmt.Sprintf("the store did not come up (exit %d): %.500s", res.ExitCode, res.Stderr)
	}
	if ver == nil {
		return fmt.Sprintf("the process died while serving after the restart (exit %d): %.500s", res.ExitCode, res.Stderr)
	}
	if ver.Err != "" {
		return ver.Err
	}
	if len(ver.Foreign) > 0 {
		return fmt.Sprintf("foreign IDs returned: %v", ver.Foreign[:min(3, len(ver.Foreign))])
	}
	if len(ver.Verify) != len(known) {
		return "verify did not cover every bulk"
	}
	for _, bv := range ver.Verify {
		if bv.Err != "" {
			return fmt.Sprintf("bulk %d: %s", bv.Bulk, bv.Err)
		}
		if bv.FetchOK != bv.N || bv.SearchPresent != bv.N || len(bv.FetchWrong) > 0 || len(bv.TokenMissing) > 0 {
			return fmt.Sprintf("bulk %d: %d documents, fetched intact %d, listed %d, wrong %v, token misses %v (fractions: %v)", bv.Bulk, bv.N, bv.FetchOK, bv.SearchPresent, bv.FetchWrong, bv.TokenMissing, ver.Fracs)
		}
	}
	return ""
}

var _ = model.ID{}
