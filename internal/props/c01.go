package props

import (
	"encoding/json"
	"fmt"
	"os"
	"path/filepath"
	"regexp"
	"sort"
	"strings"
	"time"

	"verif/internal/gen"
	"verif/internal/h"
	"verif/internal/model"
)

// C01 — acknowledged bulks survive any crash/restart history, intact and uncorrupted.

func init() {
	h.Register(&h.Prop{
		ID:    "C01",
		Level: "fault_enumeration",
		Rule: "case = one restart of a seeded history: rounds of [restart -> verify everything -> ingest bulks -> crash at the k-th hit of a write-path hook (before/after the docs write, after its fsync = orphan docs block, before/after the meta write, after its fsync before the ack) or clean exit], " +
			"each crash followed by a power-loss variant (every file truncated to a seeded length between its last fsync-covered length and its size); histories have 3..5 rounds, so crash -> ingest -> restart -> ingest -> restart is formed by construction. " +
			"oracle per restart: the store comes up; every acknowledged document is fetched byte-identical, listed by _all_ and found by its tokens; every unacknowledged bulk is wholly present or wholly absent; no foreign ID; " +
			"plus an offline ordering check of the hook event log (docs write < docs fsync < meta write < meta fsync < ack) for every acknowledged bulk. " +
			"non-trivial = the restart follows a crash or a tear and at least one bulk was acknowledged before; distinct = (crash point, hit parity, tear class, round)",
		Assumptions: []string{
			"crash = os.Exit inside a hook (process crash); power loss = truncation of unsynced tails computed from the fsync events; loss/reordering of directory operations is not modelled",
			"fsync is on (conf.SkipFsync=false); retention disabled (huge TotalSize)",
		},
		Batches: tiered(192, 3840),
		Run:     runC01,
		Par:     16,
		Timeout: timeoutFor(3*time.Minute, 45*time.Minute),
	})
}

var c01CrashPoints = []string{"fw.write.before", "fw.write.after", "fw.sync.after", "aw.docs.done", "aw.meta.done", "aw.begin"}

type c01Bulk struct {
	id        int
	docs      []*model.Doc
	submitted bool
	acked     bool
}

func writeSpec(path string, spec phaseSpec) {
	b, _ := json.Marshal(spec)
	os.WriteFile(path, b, 0o644)
}

// tearFiles applies the power-loss model: every file of the data dir whose size exceeds the length covered by its last
// completed fsync may lose any suffix of the unsynced tail. Returns a description of what was done.
func tearFiles(r *h.Rng, dir string, events []hookEvent, mode string, startSizes map[string]int64) []string {
	durable := map[string]int64{}
	for f, sz := range startSizes {
		durable[f] = sz // what was on disk when the process started is the persistent state it started from
	}
	for _, e := range events {
		if e.Kind == "file" && e.Point == "fw.fsync.done" {
			if e.A > durable[e.File] {
				durable[e.File] = e.A
			}
		}
	}
	var out []string
	files, _ := filepath.Glob(filepath.Join(dir, "seq-db-*"))
	sort.Strings(files)
	for _, f := range files {
		if !strings.HasSuffix(f, ".docs") && !strings.HasSuffix(f, ".meta") {
			continue
		}
		st, err := os.Stat(f)
		if err != nil {
			continue
		}
		size, dur := st.Size(), durable[f]
		if size <= dur {
			continue
		}
		var to int64
		switch mode {
		case "none":
			continue
		case "max":
			to = dur
		default:
			tail := size - dur
			cands := []int64{dur, dur + 1, dur + 32, dur + 33, dur + 34, dur + tail/2, size - 1, size}
			to = cands[r.Intn(len(cands))]
			if to > size {
				to = size
			}
			if to < dur {
				to = dur
			}
		}
		if to < size {
			os.Truncate(f, to)
			out = append(out, fmt.Sprintf("%s: %d -> %d (fsynced %d)", filepath.Base(f)[len(filepath.Base(f))-5:], size, to, dur))
		}
	}
	return out
}

// checkWriteOrder is the offline ordering monitor over the hook event log of one process lifetime.
func checkWriteOrder(events []hookEvent) string {
	// per acknowledged bulk: the docs write, a docs fsync covering it, the meta write, a meta fsync covering it, the ack - in this order
	type wr struct {
		seq  int64
		file string
		end  int64
	}
	var pendingDocs, pendingMeta *wr
	var syncs []hookEvent
	for _, e := range events {
		if e.Kind == "file" && e.Point == "fw.fsync.done" {
			syncs = append(syncs, e)
		}
	}
	covered := func(w *wr, before int64) bool {
		for _, s := range syncs {
			if s.File == w.file && s.Seq > w.seq && s.Seq < before && s.A >= w.end {
				return true
			}
		}
		return false
	}
	for _, e := range events {
		switch {
		case e.Kind == "submit":
			pendingDocs, pendingMeta = nil, nil
		case e.Kind == "file" && e.Point == "fw.write.after" && strings.HasSuffix(e.File, ".docs"):
			pendingDocs = &wr{seq: e.Seq, file: e.File, end: e.A + e.B}
		case e.Kind == "file" && e.Point == "fw.write.before" && strings.HasSuffix(e.File, ".meta"):
			if pendingDocs == nil {
				return fmt.Sprintf("meta block written (event %d) before any docs block of this bulk", e.Seq)
			}
			if !covered(pendingDocs, e.Seq) {
				return fmt.Sprintf("meta block written (event %d) before an fsync covered the docs block written at event %d", e.Seq, pendingDocs.seq)
			}
		case e.Kind == "file" && e.Point == "fw.write.after" && strings.HasSuffix(e.File, ".meta"):
			pendingMeta = &wr{seq: e.Seq, file: e.File, end: e.A + e.B}
		case e.Kind == "ack":
			if pendingDocs == nil || pendingMeta == nil {
				return fmt.Sprintf("bulk %d acknowledged (event %d) without a docs and a meta write", e.N, e.Seq)
			}
			if !covered(pendingMeta, e.Seq) {
				return fmt.Sprintf("bulk %d acknowledged (event %d) before an fsync covered its meta block (written at event %d)", e.N, e.Seq, pendingMeta.seq)
			}
			if !covered(pendingDocs, e.Seq) {
				return fmt.Sprintf("bulk %d acknowledged (event %d) before an fsync covered its docs block", e.N, e.Seq)
			}
		}
	}
	return ""
}

// ---- syscall-level ordering monitor (strace): independent of the hooks, so a hook that was moved or kept while the
// fsync it reports was dropped cannot fool it. The phase writes its "ack k" events with write(2) to the event log, which
// puts the acknowledgements into the same syscall sequence as pwrite64/fsync on the fraction files.

var (
	stOpenRe = regexp.MustCompile(`^(\d+)\s+openat\([^,]+, "([^"]+)".*\) = (\d+)`)
	stCallRe = regexp.MustCompile(`^(\d+)\s+(pwrite64|fsync|fdatasync|write)\((\d+)(.*)$`)
	stResRe  = regexp.MustCompile(`^(\d+)\s+<\.\.\. (pwrite64|fsync|fdatasync|write) resumed>.*= (-?\d+)`)
	stAckRe  = regexp.MustCompile(`"\d+ ack (\d+)\\n"`)
	// an openat split by strace into "<unfinished ...>" and "<... openat resumed>" lines
	stOpenUnfRe = regexp.MustCompile(`^(\d+)\s+openat\([^,]+, "([^"]+)".*<unfinished`)
	stOpenResRe = regexp.MustCompile(`^(\d+)\s+<\.\.\. openat resumed>.*= (\d+)`)
)

// checkSyscallOrder parses an strace log of one ingest process. Lines of strace -f appear in an order that respects every
// happens-before edge of the traced program (a thread continues past a syscall entry/exit only after strace logged it), so
// the following counting invariants are sound under concurrent bulks as well. A pwrite64 on file F is "covered" once an
// fsync(F) that STARTED after the pwrite completed has itself completed. Every bulk writes one docs block and one meta block:
//   - when the j-th pwrite64 to a .meta file starts, at least j pwrites to .docs files are covered;
//   - when the n-th "ack" is written, at least n pwrites to .meta files (and n to .docs files) are covered.
func checkSyscallOrder(tracePath string) (string, int) {
	b, err := os.ReadFile(tracePath)
	if err != nil {
		return "", 0
	}
	fdPath := map[string]string{}
	completed := map[string]int{} // file -> pwrites completed
	covered := map[string]int{}   // file -> pwrites covered by a completed fsync
	type pend struct {
		file string
		snap int
	}
	pendW := map[string]string{}
	pendS := map[string]pend{}
	pendO := map[string]string{}
	sum := func(m map[string]int, suffix string) int {
		n := 0
		for f, c := range m {
			if strings.HasSuffix(f, suffix) {
				n += c
			}
		}
		return n
	}
	acks, metaStarts := 0, 0
	for _, ln := range strings.Split(string(b), "\n") {
		if m := stOpenRe.FindStringSubmatch(ln); m != nil {
			fdPath[m[3]] = m[2]
			continue
		}
		if m := stOpenUnfRe.FindStringSubmatch(ln); m != nil {
			pendO[m[1]] = m[2]
			continue
		}
		if m := stOpenResRe.FindStringSubmatch(ln); m != nil {
			if path, ok := pendO[m[1]]; ok {
				fdPath[m[2]] = path
				delete(pendO, m[1])
			}
			continue
		}
		if m := stCallRe.FindStringSubmatch(ln); m != nil {
			pid, call, fd, rest := m[1], m[2], m[3], m[4]
			file := fdPath[fd]
			unfinished := strings.Contains(rest, "<unfinished")
			switch call {
			case "pwrite64":
				if !strings.HasSuffix(file, ".docs") && !strings.HasSuffix(file, ".meta") {
					continue
				}
				if strings.HasSuffix(file, ".meta") {
					metaStarts++
					if c := sum(covered, ".docs"); c < metaStarts {
						return fmt.Sprintf("syscall trace: meta block #%d is written while only %d docs blocks are covered by a completed fsync", metaStarts, c), acks
					}
				}
				if unfinished {
					pendW[pid] = file
				} else {
					completed[file]++
				}
			case "fsync", "fdatasync":
				if unfinished {
					pendS[pid] = pend{file, completed[file]}
				} else if strings.Contains(rest, "= 0") {
					covered[file] = max(covered[file], completed[file])
				}
			case "write":
				if a := stAckRe.FindStringSubmatch(rest); a != nil {
					acks++
					cd, cm := sum(covered, ".docs"), sum(covered, ".meta")
					if sum(completed, ".docs") == 0 || sum(completed, ".meta") == 0 {
						// no write to a fraction file was recognised at all: the trace could not be mapped to files (not a verdict)
						return "inconclusive: no pwrite64 to .docs/.meta recognised in the trace", acks
					}
					if cd < acks || cm < acks {
						return fmt.Sprintf("syscall trace: acknowledgement #%d (bulk %s) is issued while only %d docs / %d meta blocks are covered by a completed fsync", acks, a[1], cd, cm), acks
					}
				}
			}
			continue
		}
		if m := stResRe.FindStringSubmatch(ln); m != nil {
			pid := m[1]
			switch m[2] {
			case "pwrite64":
				if f, ok := pendW[pid]; ok {
					completed[f]++
					delete(pendW, pid)
				}
			case "fsync", "fdatasync":
				if p, ok := pendS[pid]; ok && m[3] == "0" {
					covered[p.file] = max(covered[p.file], p.snap)
					delete(pendS, pid)
				}
			}
		}
	}
	return "", acks
}

func c01Strace(w *h.W, batch int) {
	r := w.Rng(77)
	work := w.Sub("strace")
	dir := filepath.Join(work, "data")
	os.MkdirAll(dir, 0o755)
	spec := phaseSpec{Dir: dir, Work: work, Out: filepath.Join(work, "out.jsonl"), Events: filepath.Join(work, "events.log")}
	nb := r.Range(3, 8)
	par := batch%16 == 15
	if par {
		nb = r.Range(12, 30)
		spec.DelaySeed = r.U64() | 1 // seeded delays at the writer hooks spread the concurrent writes over the fsync windows
	}
	for i := 0; i < nb; i++ {
		c := gen.MakeCorpus(r, gen.CorpusOpt{N: r.Range(1, 40), Vocab: 3, MIDSpread: 100, MaxToks: 2, BaseMID: gen.T0 + uint64(i)*1000, Tag: fmt.Sprintf("st%d", i)})
		writeBulkFile(work, i, c.Docs)
	}
	for i := 0; i < nb; {
		if n := min(nb-i, r.Range(2, 6)); par {
			spec.Steps = append(spec.Steps, phaseStep{Op: "bulk_par", Bulk: i, N: n})
			i += n
		} else {
			spec.Steps = append(spec.Steps, phaseStep{Op: "bulk", Bulk: i})
			i++
		}
	}
	specPath := filepath.Join(work, "spec.json")
	writeSpec(specPath, spec)
	desc := map[string]any{"part": "strace", "bulks": nb, "concurrent": par}
	if !w.Begin(desc) {
		return
	}
	trace := filepath.Join(work, "trace.txt")
	res := h.SpawnPhaseWrapped(work, []string{"strace", "-f", "-o", trace, "-e", "trace=pwrite64,fsync,fdatasync,write,openat"}, "store", 3*time.Minute, nil, specPath)
	evs := readPhaseOut(spec.Out)
	acked := 0
	for _, e := range evs {
		if e.Ev == "ack" {
			acked++
		}
	}
	bad, seen := checkSyscallOrder(trace)
	w.Count("strace_acks_checked", int64(seen))
	switch {
	case res.TimedOut:
		w.Inconclusive("watchdog: strace phase did not finish")
	case strings.HasPrefix(bad, "inconclusive:"):
		w.Inconclusive(bad)
	case bad != "":
		w.Violation("C01:syscall-order", map[string]any{"diff": bad, "case": desc})
	case acked != nb || seen != nb:
		w.Inconclusive(fmt.Sprintf("strace monitor saw %d acknowledgements, the phase reported %d of %d (exit %d)", seen, acked, nb, res.ExitCode))
	default:
		w.Held(fmt.Sprintf("strace|%d|%v", nb, par), true)
	}
}

func runC01(w *h.W, batch int) {
	if batch%8 == 7 {
		c01Strace(w, batch)
		return
	}
	r := w.Rng()
	nHist := 4
	for hi := 0; hi < nHist; hi++ {
		hr := r.Fork()
		work := w.Sub(fmt.Sprintf("h%d", hi))
		dir := filepath.Join(work, "data")
		os.MkdirAll(dir, 0o755)
		sizeClass := h.Pick(hr, []string{"small", "small", "tiny", "big", "many"})
		opt := phaseOpt{}
		var bulks []*c01Bulk
		nextBulk := 0
		usedIDs := map[model.ID]bool{}
		mkBulk := func() *c01Bulk {
			n := hr.LogInt(1, 60)
			pad := 0
			switch sizeClass {
			case "tiny":
				n = hr.Range(1, 3)
			case "big":
				n = hr.Range(1, 6)
				pad = 70000
			case "many":
				n = hr.Range(200, 2000)
			}
			c := gen.MakeCorpus(hr, gen.CorpusOpt{N: n, Vocab: 4, MIDSpread: hr.LogInt(2, 500), MaxToks: 2, BodyPad: pad, Tag: fmt.Sprintf("b%dh%dk%d", batch, hi, nextBulk)})
			for _, d := range c.Docs {
				for usedIDs[d.ID] {
					d.ID.RID++
				}
				usedIDs[d.ID] = true
				if sizeClass == "big" && hr.Bool() {
					// incompressible payload
					d.Body = append(d.Body[:len(d.Body)-1], []byte(fmt.Sprintf(`,"rnd":"%x"}`, hr.Bytes(hr.Range(100, 30000))))...)
				}
			}
			b := &c01Bulk{id: nextBulk, docs: c.Docs}
			nextBulk++
			writeBulkFile(work, b.id, b.docs)
			bulks = append(bulks, b)
			return b
		}
		rounds := hr.Range(3, 5)
		prevCrash, prevTear := "", []string(nil)
		ackedBefore := 0
		dead := false
		for round := 0; round <= rounds && !dead; round++ {
			last := round == rounds
			spec := phaseSpec{Dir: dir, Work: work, Opt: opt, Out: filepath.Join(work, fmt.Sprintf("out-%d.jsonl", round)), Events: filepath.Join(work, fmt.Sprintf("events-%d.log", round))}
			for _, b := range bulks {
				spec.Known = append(spec.Known, b.id)
			}
			spec.Steps = append(spec.Steps, phaseStep{Op: "verify"})
			var fresh []*c01Bulk
			concurrent := false
			crashDesc := "none"
			if !last {
				nb := hr.Range(1, 4)
				concurrent = hr.Chance(1, 3)
				if concurrent {
					// the bulks of this round are in flight at once (several clients): block order in .docs and .meta may differ
					nb = hr.Range(2, 6)
				}
				for i := 0; i < nb; i++ {
					b := mkBulk()
					fresh = append(fresh, b)
					if !concurrent {
						spec.Steps = append(spec.Steps, phaseStep{Op: "bulk", Bulk: b.id})
					}
				}
				if concurrent {
					spec.Steps = append(spec.Steps, phaseStep{Op: "bulk_par", Bulk: fresh[0].id, N: nb})
				}
				switch hr.Intn(8) {
				case 0: // clean exit without stopping the store
				case 1:
					spec.Steps = append(spec.Steps, phaseStep{Op: "stop"})
					crashDesc = "graceful-stop"
				default:
					spec.CrashPoint = h.Pick(hr, c01CrashPoints)
					max := int64(2 * nb)
					if strings.HasPrefix(spec.CrashPoint, "aw.") {
						max = int64(nb)
					}
					spec.CrashAt = 1 + int64(hr.Intn(int(max)))
					crashDesc = fmt.Sprintf("%s#%d", spec.CrashPoint, spec.CrashAt)
				}
			}
			specPath := filepath.Join(work, fmt.Sprintf("spec-%d.json", round))
			writeSpec(specPath, spec)
			desc := map[string]any{"history": fmt.Sprintf("b%d/h%d", batch, hi), "round": round, "sizes": sizeClass, "restart_after": prevCrash, "tear_applied": prevTear,
				"bulks_known": len(bulks) - len(fresh), "then_ingest": len(fresh), "concurrently": concurrent, "then_crash_at": crashDesc}
			active := w.Begin(desc) // when skipped (resume / replay of another case) the phase still runs to keep the history going
			startSizes := fileSizes(dir)
			res := h.SpawnPhase(work, "store", 2*time.Minute, nil, specPath)
			evs := readPhaseOut(spec.Out)
			hookEvs := readEvents(spec.Events)
			w.Count("phases", 1)
			w.Count("hook_events", int64(len(hookEvs)))
			// ---- judge the restart
			bad, class := "", ""
			ready := false
			var ver *phaseEvent
			acks := map[int]bool{}
			subs := map[int]bool{}
			for i := range evs {
				switch evs[i].Ev {
				case "ready":
					ready = true
				case "verify":
					ver = &evs[i]
				case "ack":
					acks[evs[i].Bulk] = true
				case "submit":
					subs[evs[i].Bulk] = true
				}
			}
			switch {
			case res.TimedOut:
				dead = true
			case !ready:
				class = "store-did-not-start:" + h.CrashFrame(res.Stderr)
				bad = fmt.Sprintf("the store did not come up after %s (exit %d): %.600s", prevCrash, res.ExitCode, res.Stderr)
			case ver == nil:
				class = "died-while-serving:" + h.CrashFrame(res.Stderr)
				bad = fmt.Sprintf("the process died while answering searches/fetches after the restart (exit %d): %.600s", res.ExitCode, res.Stderr)
			default:
				if ver.Err != "" {
					class, bad = "error-returned:"+errSig(ver.Err), ver.Err
				}
				if len(ver.Foreign) > 0 && bad == "" {
					class, bad = "foreign-id", fmt.Sprintf("search returned IDs no bulk ever carried: %v", ver.Foreign[:min(4, len(ver.Foreign))])
				}
				for _, bv := range ver.Verify {
					if bad != "" {
						break
					}
					var b *c01Bulk
					for _, x := range bulks {
						if x.id == bv.Bulk {
							b = x
						}
					}
					switch {
					case bv.Err != "":
						class, bad = "error-returned:"+errSig(bv.Err), fmt.Sprintf("bulk %d: %s", bv.Bulk, bv.Err)
					case len(bv.FetchWrong) > 0:
						class, bad = "wrong-bytes", fmt.Sprintf("bulk %d (acked=%v): %v", bv.Bulk, b.acked, bv.FetchWrong)
					case b.acked && (bv.FetchOK != bv.N || bv.SearchPresent != bv.N || len(bv.TokenMissing) > 0):
						class = "acked-doc-lost"
						bad = fmt.Sprintf("acknowledged bulk %d: %d documents, fetched intact %d, listed by _all_ %d, token misses %v", bv.Bulk, bv.N, bv.FetchOK, bv.SearchPresent, bv.TokenMissing)
					case !b.acked:
						whole := bv.FetchOK == bv.N && bv.SearchPresent == bv.N && len(bv.TokenMissing) == 0
						gone := bv.FetchOK == 0 && bv.SearchPresent == 0
						if !whole && !gone {
							class = "partial-bulk"
							bad = fmt.Sprintf("unacknowledged bulk %d is partially present: %d documents, fetched %d, listed %d, token misses %v", bv.Bulk, bv.N, bv.FetchOK, bv.SearchPresent, bv.TokenMissing)
						}
						if whole {
							w.Count("unacked_bulk_wholly_present", 1)
						} else if gone {
							w.Count("unacked_bulk_wholly_absent", 1)
						}
					}
				}
			}
			if concurrent {
				w.Count("rounds_with_concurrent_bulks", 1)
			}
			if bad == "" && !concurrent { // the hook-log order monitor pairs writes with bulks by adjacency: sequential rounds only (concurrent ones: strace monitor)
				if s := checkWriteOrder(hookEvs); s != "" {
					class, bad = "write-order", s
				}
			}
			// ---- bookkeeping for the next round
			for _, b := range fresh {
				b.submitted = subs[b.id]
				b.acked = acks[b.id]
				if b.acked {
					w.Count("bulks_acked", 1)
				}
			}
			crashed := res.ExitCode == 77
			if spec.CrashPoint != "" && !crashed && bad == "" && ready {
				w.Count("crash_point_not_reached", 1)
			}
			if !last && ready && !crashed && res.ExitCode != 0 && bad == "" {
				class = "died-while-ingesting:" + h.CrashFrame(res.Stderr)
				bad = fmt.Sprintf("the process died during ingestion without an injected crash (exit %d): %.600s", res.ExitCode, res.Stderr)
			}
			tearMode := "none"
			var tear []string
			if crashed {
				tearMode = h.Pick(hr, []string{"none", "max", "mid", "mid", "mid"})
				tear = tearFiles(hr, dir, hookEvs, tearMode, startSizes)
				w.Count("crashes_injected", 1)
				w.Distinct("crash_points_reached", fmt.Sprintf("%s/%d", spec.CrashPoint, spec.CrashAt%2))
			}
			nt := (prevCrash != "" && prevCrash != "none") && ackedBefore > 0
			if res.TimedOut && active {
				w.Inconclusive("watchdog: phase did not finish")
			} else if active {
				if bad != "" {
					w.Violation("C01:"+class, map[string]any{"diff": bad, "case": desc, "stderr": res.Stderr[:min(len(res.Stderr), 1200)]})
					dead = true // the history is not continued on a broken store
				} else {
					if nt && w.WantSample() {
						w.Sample(desc)
					}
					tc := "notear"
					if len(prevTear) > 0 {
						tc = "torn"
					}
					w.Held(fmt.Sprintf("%s|%s|r%d|%s", strings.SplitN(prevCrash, "#", 2)[0], tc, round, sizeClass), nt)
				}
			}
			for _, b := range bulks {
				if b.acked {
					ackedBefore++
				}
			}
			prevCrash, prevTear = crashDesc, tear
			_ = tearMode
		}
		os.RemoveAll(work)
	}
}

func fileSizes(dir string) map[string]int64 {
	out := map[string]int64{}
	files, _ := filepath.Glob(filepath.Join(dir, "*"))
	for _, f := range files {
		if st, err := os.Stat(f); err == nil && !st.IsDir() {
			out[f] = st.Size()
		}
	}
	return out
}
