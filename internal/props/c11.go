package props

import (
	"context"
	"fmt"
	"sort"
	"strings"
	"time"
	"unicode"
	"unicode/utf8"

	"github.com/ozontech/seq-db/conf"
	"github.com/ozontech/seq-db/mappingprovider"
	"github.com/ozontech/seq-db/proxy/bulk"
	"github.com/ozontech/seq-db/seq"

	"verif/internal/gen"
	"verif/internal/h"
	"verif/internal/model"
	"verif/internal/sdb"
)

// C11 — whatever the indexer tokenizes, the query language can find.

func init() {
	h.Register(&h.Prop{
		ID:    "C11",
		Level: "exploration",
		Rule: "case = one document (JSON object with keyword, size-limited keyword, text, size-limited text, path, exists, object, tags and multi-type fields holding hostile values: multi-byte case pairs whose lower-case form changes length, " +
			"combining marks, non-ASCII digits/numbers, separators, wildcard characters, quotes/backslashes, invalid bytes, values at limit-1/limit/limit+1) ingested through the real bulk.Ingestor into a real store; " +
			"for every mapped field queries are built from the field's own content by the statement's rule (whole value / every word / every leading path / existence) in every SeqQL quoting style and in the legacy syntax and must return the document; " +
			"over-limit values must be skipped or findable by their valid prefix; configuration (case-sensitive, partial indexing) is fixed per worker process; " +
			"non-trivial = the document yields >= 3 distinct obligations; distinct = (value classes present, configuration)",
		Assumptions: []string{
			"conf.CaseSensitive is process-global: one setting per worker",
			"nested fields are not generated (one document, several IDs is outside the statement)",
		},
		Batches: tiered(144, 2880),
		Run:     runC11,
		Timeout: timeoutFor(3*time.Minute, 40*time.Minute),
	})
}

const (
	c11KwSmall = 10
	c11TxSmall = 24
	c11MtKw    = 18
	c11MaxTok  = 72
)

func c11Mapping() seq.Mapping {
	return seq.Mapping{
		"kw":       seq.NewSingleType(seq.TokenizerTypeKeyword, "", 0),
		"kw_small": seq.NewSingleType(seq.TokenizerTypeKeyword, "", c11KwSmall),
		"tx":       seq.NewSingleType(seq.TokenizerTypeText, "", 0),
		"tx_small": seq.NewSingleType(seq.TokenizerTypeText, "", c11TxSmall),
		"pa":       seq.NewSingleType(seq.TokenizerTypePath, "", 0),
		"ex":       seq.NewSingleType(seq.TokenizerTypeExists, "", 0),
		"ob":       seq.NewSingleType(seq.TokenizerTypeObject, "", 0),
		"ob.inner": seq.NewSingleType(seq.TokenizerTypeKeyword, "", 0),
		"ob.t":     seq.NewSingleType(seq.TokenizerTypeText, "", 0),
		"tg":       seq.NewSingleType(seq.TokenizerTypeTags, "", 0),
		"tg.x":     seq.NewSingleType(seq.TokenizerTypeKeyword, "", 0),
		"mt": {Main: seq.MappingType{TokenizerType: seq.TokenizerTypeText}, All: []seq.MappingType{
			{Title: "mt", TokenizerType: seq.TokenizerTypeText}, {Title: "mt.keyword", TokenizerType: seq.TokenizerTypeKeyword, MaxSize: c11MtKw}}},
		"mt.keyword": seq.NewSingleType(seq.TokenizerTypeKeyword, "mt.keyword", c11MtKw),
		// the same, with the default (text) type listed last
		"mr": {Main: seq.MappingType{TokenizerType: seq.TokenizerTypeText}, All: []seq.MappingType{
			{Title: "mr.keyword", TokenizerType: seq.TokenizerTypeKeyword, MaxSize: c11MtKw}, {Title: "mr", TokenizerType: seq.TokenizerTypeText}}},
		"mr.keyword": seq.NewSingleType(seq.TokenizerTypeKeyword, "mr.keyword", c11MtKw),
		"_exists_":   seq.NewSingleType(seq.TokenizerTypeKeyword, "", 0),
	}
}

var c11Pool = []string{"Hello World", "İstanbul", "ȺȾ mixed", "\u212Aelvin", "ǅ", "straße", "ÀÉÎ", "e\u0301clair", "٣٤", "Ⅻ", "x²", "½", "日本語 テキスト", "a_b*c", "a*b", "*", "**", "x-y.z", "quote\"d", "back\\slash",
	"it's", "tick`s", "tab\tsep", "new\nline", "a:b", "(paren)", "[br]", "{cu}", "a b  c", " lead", "trail ", "", "a\xffb", "\xc3", "emoji😀x", "/var/log/app.log", "a//b/", "/", "//", "and", "or", "not", "in", "to", "AND",
	"*prefix", "suffix*", "1e5", "-1", "0x10", "ünï", "ПРИВЕТ мир", "ß", "ſ", "ΣΑΣ", "ς", "UPPER lower MiXeD", "a,b;c", "x|y", "#hash", "dollar$", "at@sign.com", "C:\\dir\\file", "\u0001ctl", "\uE000private", "a\u00a0nbsp", "tab\there"}

func c11Value(r *h.Rng) string {
	switch r.Intn(6) {
	case 0, 1, 2:
		return h.Pick(r, c11Pool)
	case 3:
		return h.Pick(r, c11Pool) + h.Pick(r, []string{" ", "/", "-", "", "_", "*"}) + h.Pick(r, c11Pool)
	case 4:
		// around a size limit
		unit := h.Pick(r, []string{"a", "Ы", "İ", "b ", "x/", "日"})
		target := h.Pick(r, []int{c11KwSmall, c11TxSmall, c11MtKw, c11MaxTok}) + r.Range(-2, 2)
		s := ""
		for len(s) < target {
			s += unit
		}
		return s
	default:
		n := r.LogInt(1, 30)
		var b strings.Builder
		for i := 0; i < n; i++ {
			switch r.Intn(10) {
			case 0:
				b.WriteByte(' ')
			case 1:
				b.WriteRune(rune(0x410 + r.Intn(64)))
			case 2:
				b.WriteByte("/_-.*:\"'\\"[r.Intn(9)])
			case 3:
				b.WriteRune(rune('A' + r.Intn(26)))
			default:
				b.WriteRune(rune('a' + r.Intn(26)))
			}
		}
		return b.String()
	}
}

func c11IsWordRune(r rune) bool {
	return unicode.IsLetter(r) || unicode.IsNumber(r) || r == '_' || r == '*'
}

// c11Words: maximal runs of letters/numbers/'_'/'*' (invalid bytes and everything else separate words).
func c11Words(v string) []string {
	var out []string
	start := -1
	for i := 0; i < len(v); {
		r, w := utf8.DecodeRuneInString(v[i:])
		isWord := c11IsWordRune(r) && !(r == utf8.RuneError && w == 1)
		if isWord {
			if start < 0 {
				start = i
			}
		} else if start >= 0 {
			out = append(out, v[start:i])
			start = -1
		}
		i += w
	}
	if start >= 0 {
		out = append(out, v[start:])
	}
	return out
}

func validPrefix(s string) string {
	for len(s) > 0 && !utf8.ValidString(s) {
		// drop a trailing partial rune
		r, w := utf8.DecodeLastRuneInString(s)
		if r == utf8.RuneError && w == 1 {
			s = s[:len(s)-1]
			continue
		}
		break
	}
	return s
}

type c11Oblig struct {
	field  string
	value  string // literal value (no wildcard meaning) that must match a token
	prefix bool   // query is value + '*' (indexed by prefix)
	kind   string
}

func seqqlBare(s string) bool {
	if s == "" {
		return false
	}
	switch strings.ToLower(s) {
	case "or", "and", "not", "in", "to", "fields", "except":
		return false
	}
	lead := 0
	for i, r := range s {
		if !(unicode.IsLetter(r) || unicode.IsDigit(r) || r == '_' || r == '.' || r == '-') {
			return false
		}
		if r == '-' && lead == 0 {
			lead = i
		}
	}
	// the lexer splits at '-': a value whose first piece is the keyword "in" starts an in(...) filter
	if lead > 0 && strings.EqualFold(s[:lead], "in") {
		return false
	}
	return utf8.ValidString(s)
}

func seqqlQuoteLit(s string, q byte) string {
	var b strings.Builder
	b.WriteByte(q)
	for i := 0; i < len(s); i++ {
		c := s[i]
		switch {
		case c == q || c == '\\':
			b.WriteByte('\\')
			b.WriteByte(c)
		case c == '*':
			b.WriteString(`\*`)
		case c == '\n':
			b.WriteString(`\n`)
		case c == '\t':
			b.WriteString(`\t`)
		case c == '\r':
			b.WriteString(`\r`)
		case c < 0x20:
			fmt.Fprintf(&b, `\x%02x`, c)
		default:
			b.WriteByte(c)
		}
	}
	b.WriteByte(q)
	return b.String()
}

// c11Render returns the query texts (language, style, text) for one obligation.
func c11Render(o c11Oblig) [][3]string {
	var out [][3]string
	f := o.field
	star := ""
	if o.prefix {
		star = "*"
	}
	v := o.value
	if seqqlBare(v) {
		out = append(out, [3]string{"seqql", "bare", f + ":" + v + star})
	}
	out = append(out, [3]string{"seqql", "double", f + ":" + seqqlQuoteLit(v, '"') + star})
	out = append(out, [3]string{"seqql", "single", f + ":" + seqqlQuoteLit(v, '\'') + star})
	if !strings.ContainsAny(v, "`\r") && utf8.ValidString(v) {
		out = append(out, [3]string{"seqql", "raw", f + ":`" + v + "`" + star})
	}
	// legacy: backslash-escaped bare form and the quoted form
	if v != "" {
		var b strings.Builder
		for _, c := range v {
			switch {
			case c == '(' || c == ')' || c == '{' || c == '}' || c == '[' || c == ']' || c == '*' || c == '"' || c == '\\' || c == ':' || unicode.IsSpace(c):
				b.WriteByte('\\')
			}
			b.WriteRune(c)
		}
		if utf8.ValidString(v) {
			out = append(out, [3]string{"legacy", "escaped", f + ":" + b.String() + star})
		}
	}
	if utf8.ValidString(v) {
		var b strings.Builder
		b.WriteByte('"')
		for _, c := range v {
			if c == '"' || c == '\\' || c == '*' {
				b.WriteByte('\\')
			}
			b.WriteRune(c)
		}
		if o.prefix {
			b.WriteByte('*')
		}
		b.WriteByte('"')
		out = append(out, [3]string{"legacy", "quoted", f + ":" + b.String()})
	}
	return out
}

func runC11(w *h.W, batch int) {
	r := w.Rng()
	caseSensitive := batch%4 == 1
	partial := batch%2 == 0
	conf.CaseSensitive = caseSensitive
	mapping := c11Mapping()
	mp, err := mappingprovider.New("", mappingprovider.WithMapping(mapping))
	if err != nil {
		panic(err)
	}
	st, err := sdb.Open(w.Sub("store"), sdb.Opt{Mapping: mapping})
	if err != nil {
		if w.Begin(map[string]any{"step": "open"}) {
			w.Violation("C11:store-did-not-start", map[string]any{"error": err.Error()})
		}
		return
	}
	defer st.Stop()
	rec := &recClient{fwd: st}
	ing := bulk.NewIngestor(bulk.IngestorConfig{MaxInflightBulks: 8, AllowedTimeDrift: time.Hour, FutureAllowedTimeDrift: time.Hour, MappingProvider: mp,
		MaxTokenSize: c11MaxTok, CaseSensitive: caseSensitive, PartialFieldIndexing: partial, DocsZSTDCompressLevel: -1, MetasZSTDCompressLevel: -1, MaxDocumentSize: 1 << 20}, rec)
	defer ing.Stop()
	cfg := fmt.Sprintf("case_sensitive=%v partial_indexing=%v", caseSensitive, partial)
	nDocs := 220
	for di := 0; di < nDocs; di++ {
		dr := r.Fork()
		vals := map[string]string{}
		var forced [][2]string
		present := map[string]bool{}
		add := func(field, v string) {
			vals[field] = v
			present[field] = true
		}
		for _, f := range []string{"kw", "kw_small", "tx", "tx_small", "pa", "ex", "mt", "mr"} {
			if dr.Chance(2, 3) {
				v := c11Value(dr)
				if f == "pa" && dr.Bool() {
					v = h.Pick(dr, []string{"/var/log/App.log", "a/b/c", "/x", "a//b/", "/", "Dir/Sub dir/file*.txt", "/İ/Ⱥ"}) + h.Pick(dr, []string{"", "/", "/tail"})
				}
				add(f, v)
				forced = append(forced, [2]string{f, gen.JSONQuoteString(dr, v)})
			}
		}
		if dr.Chance(1, 2) {
			iv, tv := c11Value(dr), c11Value(dr)
			add("ob.inner", iv)
			add("ob.t", tv)
			forced = append(forced, [2]string{"ob", "{" + gen.JSONQuoteString(dr, "inner") + ":" + gen.JSONQuoteString(dr, iv) + "," + gen.JSONQuoteString(dr, "t") + ":" + gen.JSONQuoteString(dr, tv) + "}"})
		}
		if dr.Chance(1, 3) {
			tvv := c11Value(dr)
			add("tg.x", tvv)
			forced = append(forced, [2]string{"tg", `[{"key":"x","value":` + gen.JSONQuoteString(dr, tvv) + `}]`})
		}
		forced = append(forced, [2]string{"unmapped_field", gen.JSONQuoteString(dr, c11Value(dr))})
		doc := gen.JSONObject(dr, 0, 0, forced)
		reqTime := time.UnixMilli(int64(gen.T0) + int64(di)).UTC()
		desc := map[string]any{"config": cfg, "doc": doc, "doc_hex_if_invalid_utf8": hexIfInvalid(doc)}
		if !w.Begin(desc) {
			continue
		}
		rec.take()
		sent := false
		total, perr := ing.ProcessDocuments(context.Background(), reqTime, func() ([]byte, error) {
			if sent {
				return nil, nil
			}
			sent = true
			return []byte(doc), nil
		})
		calls := rec.take()
		if perr != nil || total != 1 || len(calls) != 1 {
			w.Violation("C11:ingest-failed", map[string]any{"error": fmt.Sprint(perr), "total": total, "case": desc})
			continue
		}
		metas, _ := sdb.DecodeMetasBlock(calls[0].metas)
		if len(metas) != 1 {
			w.Violation("C11:unexpected-metas", map[string]any{"metas": len(metas), "case": desc})
			continue
		}
		id := model.ID{MID: uint64(metas[0].ID.MID), RID: uint64(metas[0].ID.RID)}
		st.WaitIdle()
		lower := func(s string) string {
			if caseSensitive {
				return s
			}
			return strings.ToLower(s)
		}
		// ---- obligations from the statement's rule
		var obs []c11Oblig
		classes := map[string]bool{}
		kwRule := func(field, v string, limit int) {
			if len(v) <= limit {
				obs = append(obs, c11Oblig{field: field, value: v, kind: "keyword"})
				return
			}
			classes["over-limit"] = true
			if partial {
				if p := validPrefix(v[:limit]); p != "" {
					obs = append(obs, c11Oblig{field: field, value: p, prefix: true, kind: "keyword-prefix"})
				}
			}
		}
		textRule := func(field, v string, fieldLimit int) {
			if len(v) > fieldLimit {
				classes["over-limit"] = true
				if !partial {
					return
				}
				v = v[:fieldLimit]
				words := c11Words(v)
				for i, wd := range words {
					if len(wd) > c11MaxTok {
						continue
					}
					last := i == len(words)-1 && strings.HasSuffix(v, wd)
					if last {
						if p := validPrefix(wd); p != "" {
							obs = append(obs, c11Oblig{field: field, value: p, prefix: true, kind: "word-prefix"})
						}
					} else {
						obs = append(obs, c11Oblig{field: field, value: wd, kind: "word"})
					}
				}
				return
			}
			for _, wd := range c11Words(v) {
				if len(wd) > c11MaxTok {
					classes["over-limit"] = true
					continue
				}
				obs = append(obs, c11Oblig{field: field, value: wd, kind: "word"})
			}
		}
		pathRule := func(field, v string, limit int) {
			if len(v) > limit {
				classes["over-limit"] = true
				if !partial {
					return
				}
				v = v[:limit]
				if p := validPrefix(v); p != "" {
					obs = append(obs, c11Oblig{field: field, value: p, prefix: true, kind: "path-prefix"})
				}
			} else {
				obs = append(obs, c11Oblig{field: field, value: v, kind: "path"})
			}
			for i := 1; i < len(v); i++ {
				if v[i] == '/' {
					obs = append(obs, c11Oblig{field: field, value: v[:i], kind: "path-cut"})
				}
			}
		}
		for f, v := range vals {
			switch f {
			case "kw", "ob.inner", "tg.x":
				kwRule(f, v, c11MaxTok)
			case "kw_small":
				kwRule(f, v, c11KwSmall)
			case "tx", "ob.t":
				textRule(f, v, 32*1024)
			case "tx_small":
				textRule(f, v, c11TxSmall)
			case "pa":
				pathRule(f, v, c11MaxTok)
			case "mt", "mr":
				textRule(f, v, 32*1024)
				kwRule(f+".keyword", v, c11MtKw)
				present[f+".keyword"] = true
			}
			if !utf8.ValidString(v) {
				classes["invalid-bytes"] = true
			}
			if strings.ToLower(v) != v {
				classes["has-upper"] = true
				if len(strings.ToLower(v)) != len(v) {
					classes["case-length-change"] = true
				}
			}
			if strings.ContainsAny(v, "*\"'`\\") {
				classes["meta-chars"] = true
			}
			for _, rn := range v {
				if rn > 0x7f {
					classes["non-ascii"] = true
				}
			}
		}
		for f := range present {
			obs = append(obs, c11Oblig{field: "_exists_", value: f, kind: "exists"})
		}
		// ---- execute
		bad := ""
		queries := 0
		for _, o := range obs {
			for _, q := range c11Render(o) {
				if bad != "" {
					break
				}
				queries++
				res, err := st.Search(sdb.SearchReq{Query: q[2], SeqQL: q[0] == "seqql", From: id.MID, To: id.MID, Size: 50})
				if err != nil {
					bad = fmt.Sprintf("query-error: %s/%s %q (from %s value %q): %v", q[0], q[1], q[2], o.kind, o.value, err)
					break
				}
				found := false
				for _, got := range res.IDs {
					if got == id {
						found = true
					}
				}
				if !found {
					bad = fmt.Sprintf("not-found: %s/%s query %q built from the document's %s %q (field %s) does not return the document", q[0], q[1], q[2], o.kind, o.value, o.field)
				}
				// the same value in lower case must match too unless case sensitivity is configured
				if bad == "" && !caseSensitive && o.field != "_exists_" {
					lv := strings.ToLower(o.value)
					if lv != o.value && strings.ToLower(lv) == lv && utf8.ValidString(lv) {
						lq := c11Render(c11Oblig{field: o.field, value: lv, prefix: o.prefix})[0]
						queries++
						res, err := st.Search(sdb.SearchReq{Query: lq[2], SeqQL: lq[0] == "seqql", From: id.MID, To: id.MID, Size: 50})
						if err != nil {
							bad = fmt.Sprintf("query-error: %s %q: %v", lq[0], lq[2], err)
						} else {
							ok := false
							for _, got := range res.IDs {
								if got == id {
									ok = true
								}
							}
							if !ok {
								bad = fmt.Sprintf("not-found: lower-cased query %q (from %s %q) does not return the document", lq[2], o.kind, o.value)
							}
						}
					}
				}
			}
		}
		// ---- nothing is indexed under a token no query can denote: every indexed token is the (lower-cased) value, a word, a path cut, or a prefix of one
		if bad == "" {
			for _, t := range metas[0].Tokens {
				key, val := string(t.Key), string(t.Value)
				if key == "_all_" || key == "_exists_" {
					continue
				}
				src, ok := vals[key]
				if key == "mt.keyword" || key == "mr.keyword" {
					src, ok = vals[key[:2]], present[key[:2]]
				}
				if !ok {
					bad = fmt.Sprintf("phantom-token: token %s:%q for a field the document does not have", key, val)
					break
				}
				// the query side reads a value rune by rune: every invalid byte is U+FFFD there
				ls := string([]rune(lower(src)))
				// a value cut at the size limit may end in a partial rune, which lower-casing turns into U+FFFD: not part of the prefix
				tv := strings.TrimRight(validPrefix(val), "\uFFFD")
				okTok := false
				switch key {
				case "tx", "tx_small", "ob.t", "mt", "mr":
					for _, wd := range c11Words(ls) {
						if strings.HasPrefix(wd, tv) {
							okTok = true
						}
					}
					if tv == "" {
						okTok = true
					}
				default:
					okTok = strings.HasPrefix(ls, tv) || strings.HasPrefix(string([]rune(lower(validPrefix(src[:min(len(src), len(val)+4)])))), tv)
				}
				if !okTok {
					bad = fmt.Sprintf("undenotable-token: field %s value %q was indexed under token %q", key, src, val)
					break
				}
			}
		}
		w.Count("documents", 1)
		w.Count("obligations", int64(len(obs)))
		w.Count("queries", int64(queries))
		if bad != "" {
			class := strings.SplitN(bad, ":", 2)[0]
			sub := ""
			if classes["invalid-bytes"] {
				sub = ":invalid-bytes"
			}
			var toks []string
			for _, t := range metas[0].Tokens {
				toks = append(toks, fmt.Sprintf("%s:%q", t.Key, t.Value))
			}
			w.Violation("C11:"+class+sub, map[string]any{"diff": bad, "case": desc, "indexed_tokens": toks})
			continue
		}
		var cl []string
		for _, c := range []string{"has-upper", "case-length-change", "non-ascii", "meta-chars", "invalid-bytes", "over-limit"} {
			if classes[c] {
				cl = append(cl, c)
			}
		}
		nt := len(obs) >= 3
		if nt && w.WantSample() {
			w.Sample(map[string]any{"case": desc, "obligations": len(obs), "queries": queries})
		}
		var fl []string
		for f := range present {
			fl = append(fl, f)
		}
		sort.Strings(fl)
		w.Held(strings.Join(cl, "+")+"|"+cfg+"|"+strings.Join(fl, ","), nt)
	}
}

func hexIfInvalid(s string) string {
	if utf8.ValidString(s) {
		return ""
	}
	return fmt.Sprintf("%x", s)
}
