package props

import (
	"fmt"
	"sync"
	"time"

	"verif/internal/gen"
	"verif/internal/h"
	"verif/internal/model"
	"verif/internal/sdb"
)

// C17 — re-delivering a bulk does not duplicate documents.

func init() {
	h.Register(&h.Prop{
		ID:    "C17",
		Level: "exploration",
		Rule: "case = one request of a battery evaluated after a seeded re-delivery history (bulks with pairwise distinct IDs; earlier documents re-sent as whole bulks, " +
			"at the start/middle/end of new bulks, several times, interleaved with new data, concurrently with the original; optional rotation so that a repeat lands in another fraction), " +
			"in active form, after sealing and after a restart; oracle = set-semantics model; with repeats inside one fraction totals/histograms/aggregations/DocsTotal are judged too; " +
			"runs under the race detector; non-trivial = history contains >=1 repeat and the request matches some documents; distinct = (history class, form, request kind)",
		Assumptions: []string{"a repeat carries the same bytes and tokens as the original (it is the same bulk payload, as on proxy retries)"},
		Batches:     tiered(144, 3200),
		Run:         runC17,
		Race:        true,
		Timeout:     timeoutFor(3*time.Minute, 45*time.Minute),
	})
}

func runC17(w *h.W, batch int) {
	r := w.Rng()
	nHist := 6
	for hi := 0; hi < nHist; hi++ {
		hr := r.Fork()
		nDocs := hr.LogInt(6, 400)
		if hi == 0 && batch%4 == 0 {
			nDocs = hr.Range(4000, 12000) // large bulks: several index workers busy with copies of the same IDs at once
		}
		corp := gen.MakeCorpus(hr, gen.CorpusOpt{N: nDocs, Vocab: hr.Range(2, 6), MIDSpread: hr.LogInt(2, 300), SmallRID: hr.Chance(1, 4), MaxToks: 2, Agg: true, Groups: 5,
			Tag: fmt.Sprintf("b%dh%d", batch, hi)})
		st, err := sdb.Open(w.Sub(fmt.Sprintf("h%d", hi)), sdb.Opt{Mapping: StoreMapping(), SkipSortDocs: hr.Chance(1, 4)})
		if err != nil {
			if w.Begin(map[string]any{"step": "open"}) {
				w.Violation("C17:store-did-not-start", map[string]any{"error": err.Error()})
			}
			continue
		}
		// build the history
		docs := shuffled(hr, corp.Docs)
		var sent []*model.Doc // distinct documents already delivered
		rotated := false      // a rotation happened after some delivery => later repeats may land in another fraction
		crossFrac := false
		repeats, concurrent, whole := 0, 0, 0
		var steps []string
		var lastBulk []*model.Doc
		var herr error
		pos := 0
		nSteps := hr.Range(2, 9)
		for s := 0; s < nSteps && herr == nil; s++ {
			// new documents of this bulk
			nNew := 0
			if pos < len(docs) {
				nNew = hr.Range(0, max(1, (len(docs)-pos)/max(1, nSteps-s)+2))
				if s == nSteps-1 {
					nNew = len(docs) - pos
				}
				nNew = min(nNew, len(docs)-pos)
			}
			fresh := docs[pos : pos+nNew]
			pos += nNew
			var rep []*model.Doc
			kind := "new"
			if len(sent) > 0 {
				switch hr.Intn(6) {
				case 0: // whole previous bulk again
					if len(lastBulk) > 0 {
						rep, fresh = lastBulk, nil
						pos -= nNew
						kind = "whole-repeat"
						whole++
					}
				case 1, 2, 3: // subset of earlier documents
					n := hr.LogInt(1, len(sent))
					seen := map[model.ID]bool{}
					for i := 0; i < n; i++ {
						d := h.Pick(hr, sent)
						if !seen[d.ID] {
							seen[d.ID] = true
							rep = append(rep, d)
						}
					}
					kind = "partial"
				}
			}
			// assemble: repeats at start / middle / end / interleaved
			var bulk []*model.Doc
			switch hr.Intn(4) {
			case 0:
				bulk = append(append(bulk, rep...), fresh...)
				kind += "@start"
			case 1:
				bulk = append(append(bulk, fresh...), rep...)
				kind += "@end"
			case 2:
				m := len(fresh) / 2
				bulk = append(append(append(bulk, fresh[:m]...), rep...), fresh[m:]...)
				kind += "@middle"
			default:
				i, j := 0, 0
				for i < len(fresh) || j < len(rep) {
					if j < len(rep) && (i >= len(fresh) || hr.Bool()) {
						bulk = append(bulk, rep[j])
						j++
					} else {
						bulk = append(bulk, fresh[i])
						i++
					}
				}
				kind += "@interleaved"
			}
			if len(bulk) == 0 {
				continue
			}
			if len(rep) > 0 {
				repeats += len(rep)
				if rotated {
					crossFrac = true
				}
			}
			if len(fresh) > 0 && hr.Chance(1, 4) {
				// deliver this bulk two or three times concurrently (original and retries racing)
				k := hr.Range(2, 3)
				var wg sync.WaitGroup
				errs := make([]error, k)
				for c := 0; c < k; c++ {
					wg.Add(1)
					go func(c int) { defer wg.Done(); errs[c] = st.Bulk(bulk) }(c)
				}
				wg.Wait()
				for _, e := range errs {
					if e != nil {
						herr = e
					}
				}
				repeats += (k - 1) * len(bulk)
				concurrent++
				kind += "+concurrent"
			} else {
				herr = st.Bulk(bulk)
			}
			lastBulk = bulk
			seen := map[model.ID]bool{}
			for _, d := range sent {
				seen[d.ID] = true
			}
			for _, d := range bulk {
				if !seen[d.ID] {
					seen[d.ID] = true
					sent = append(sent, d)
				}
			}
			steps = append(steps, fmt.Sprintf("%s(%d new,%d rep)", kind, len(fresh), len(rep)))
			if hr.Chance(1, 8) && s < nSteps-1 {
				st.SealAll() // rotation: later repeats of earlier documents land in a new fraction
				rotated = true
				steps = append(steps, "rotate")
			}
		}
		st.WaitIdle()
		if herr != nil {
			if w.Begin(map[string]any{"step": "history", "steps": steps}) {
				w.Violation("C17:bulk-error:"+errSig(herr.Error()), map[string]any{"error": herr.Error()})
			}
			st.Stop()
			continue
		}
		sentCorp := &gen.Corpus{Docs: sent, Vocab: corp.Vocab}
		sentCorp.MinMID, sentCorp.MaxMID = corp.MinMID, corp.MaxMID
		bat := makeBattery(hr, sentCorp, batteryOpt{Searches: 14, Fetches: 3, Aggs: true, MaxDepth: 2})
		hclass := "same-frac"
		if crossFrac {
			hclass = "cross-frac"
		}
		if concurrent > 0 {
			hclass += "+concurrent"
		}
		if whole > 0 {
			hclass += "+whole"
		}
		hdesc := fmt.Sprintf("docs=%d repeats=%d %v", len(sent), repeats, steps)
		w.Count("histories", 1)
		w.Count("repeated_deliveries", int64(repeats))
		w.Count("concurrent_groups", int64(concurrent))
		forms := []string{"active", "replayed", "sealed", "restarted"}
		for _, form := range forms {
			switch form {
			case "sealed":
				st.SealAll()
			case "replayed":
				// restart while the fraction is still active: Replay hands the original and its repeats to the index workers back to back
				st.Stop()
				if st, err = sdb.Open(st.Dir, st.Opt); err != nil {
					if w.Begin(map[string]any{"step": "restart-active", "history": hdesc}) {
						w.Violation("C17:store-did-not-start", map[string]any{"error": err.Error()})
					}
					st = nil
				}
			case "restarted":
				st.Stop()
				if st, err = sdb.Open(st.Dir, st.Opt); err != nil {
					if w.Begin(map[string]any{"step": "restart", "history": hdesc}) {
						w.Violation("C17:store-did-not-start", map[string]any{"error": err.Error()})
					}
					st = nil
				}
			}
			if st == nil {
				break
			}
			// the fraction's own document count
			if !crossFrac {
				if w.Begin(map[string]any{"kind": "docs-total", "form": form, "history": hdesc}) {
					var total uint32
					for _, f := range st.S.FracManager.GetAllFracs() {
						total += f.Info().DocsTotal
					}
					if int(total) != len(sent) {
						w.Violation("C17:wrong-docs-total:"+form, map[string]any{"got": total, "expected": len(sent), "history": hdesc})
					} else {
						w.Held(hclass+"|"+form+"|docs-total", repeats > 0)
					}
				}
			}
			for _, q := range bat {
				if !w.Begin(q.desc(form, hdesc)) {
					continue
				}
				class, diff := q.checkMode(st, crossFrac)
				if class != "" {
					w.Violation("C17:"+class+":"+form, map[string]any{"diff": diff, "request": q.desc(form, hdesc)})
					continue
				}
				nt := repeats > 0 && (q.Kind == "fetch" || q.Exp.Total > 0)
				if nt && w.WantSample() {
					w.Sample(q.desc(form, hdesc))
				}
				k := q.Kind
				if len(q.Aggs) > 0 {
					k += "+agg"
				}
				if q.SC.Interval > 0 {
					k += "+hist"
				}
				w.Held(fmt.Sprintf("%s|%s|%s|s%d|r%d", hclass, form, k, len(steps), min(repeats/10, 9)), nt)
			}
		}
		if st != nil {
			st.Stop()
		}
	}
}
