package props

import (
	"bytes"
	"compress/gzip"
	"context"
	"encoding/json"
	"fmt"
	"net/http"
	"net/http/httptest"
	"regexp"
	"strings"
	"sync"
	"time"

	"github.com/ozontech/seq-db/frac"
	"github.com/ozontech/seq-db/mappingprovider"
	"github.com/ozontech/seq-db/proxy/bulk"
	"github.com/ozontech/seq-db/proxyapi"
	"github.com/ozontech/seq-db/seq"

	"verif/internal/gen"
	"verif/internal/h"
	"verif/internal/model"
	"verif/internal/sdb"
)

// C10 — bulk ingestion stores valid documents verbatim, timed by rule, or stores nothing.

func init() {
	h.Register(&h.Prop{
		ID:    "C10",
		Level: "exploration",
		Rule: "parts: (A) request bodies (seeded sequences of action/document lines: generated JSON objects of every shape, non-object values, blank lines, CRLF, missing trailing newline, lines around the max-document-size/reader-buffer limit, " +
			"clearly malformed lines, grey-zone JSON; plain or gzip) through the real BulkHandler.ServeHTTP -> bulk.Ingestor -> recording storage client (a third forwards to a real store and fetches); " +
			"oracle: status, number of created items, exactly one or zero StoreDocuments calls, decoded docs payload = the expected lines' bytes in order, each meta carries its document's size; " +
			"(C) 3-8 clients x 12 requests in flight at once through one ingestor to a storage client whose calls last 300 us and re-read their payload before returning: no payload changes while in flight, every request's storage call carries exactly its own documents; " +
			"(B) time rule through Ingestor.ProcessDocuments with an explicit request time: every field name x format, offsets at +-drift, +-drift+-1ms, unparsable values. " +
			"case = one request; non-trivial = the body mixes stored and skipped/rejecting lines (A) or a parsable time field decides the ID (B); distinct = (line class multiset, encoding, outcome | field, format, offset class)",
		Assumptions: []string{
			"lines of length max-3..max are a don't-care band (either stored verbatim or skipped, consistently); only clearly malformed lines (truncated, unbalanced, bare words) must reject the request, grey-zone JSON is judged for all-or-nothing only",
			"one max-document-size per worker process (the line reader pool keeps its first buffer size, as one process has one setting)",
		},
		Batches: tiered(640, 9600),
		Run:     runC10,
		Timeout: timeoutFor(3*time.Minute, 40*time.Minute),
	})
}

type recClient struct {
	mu    sync.Mutex
	calls []recCall
	fwd   *sdb.Store
	fail  error
	// hold > 0: the call lasts that long and re-reads the payload before returning; mutated counts payloads that changed meanwhile
	hold    time.Duration
	mutated int
}

type recCall struct {
	count       int
	docs, metas []byte
}

func (c *recClient) StoreDocuments(ctx context.Context, count int, docs, metas []byte) error {
	d0, m0 := bytes.Clone(docs), bytes.Clone(metas)
	c.mu.Lock()
	c.calls = append(c.calls, recCall{count, d0, m0})
	c.mu.Unlock()
	if c.hold > 0 {
		// a store call takes time (network, retries): the payload handed over must stay what it was until the call returns
		time.Sleep(c.hold)
		if !bytes.Equal(docs, d0) || !bytes.Equal(metas, m0) {
			c.mu.Lock()
			c.mutated++
			c.mu.Unlock()
		}
	}
	if c.fwd != nil {
		return c.fwd.BulkRaw(ctx, count, bytes.Clone(docs), bytes.Clone(metas))
	}
	return c.fail
}

func (c *recClient) take() []recCall {
	c.mu.Lock()
	defer c.mu.Unlock()
	out := c.calls
	c.calls = nil
	return out
}

func c10Mapping() seq.Mapping {
	return seq.Mapping{
		"a": sdb.Keyword(), "b": sdb.Keyword(), "c": sdb.Text(), "msg": sdb.Text(), "level": sdb.Keyword(), "n": sdb.Keyword(),
		"k.dot": sdb.Keyword(), "x_1": sdb.Keyword(), "UPPER": sdb.Text(), "k-dash": seq.NewSingleType(seq.TokenizerTypePath, "", 0),
		"seqno": sdb.Keyword(),
	}
}

type c10Line struct {
	text  string
	class string // valid | nonobject | oversize | band | malformed | grey | blank-doc
}

func runC10(w *h.W, batch int) {
	r := w.Rng()
	maxDoc := []int{256, 1024, 4096, 700}[batch%4]
	mp, err := mappingprovider.New("", mappingprovider.WithMapping(c10Mapping()))
	if err != nil {
		panic(err)
	}
	drift, fdrift := time.Hour, 10*time.Minute
	mkIngestor := func(cl bulk.StorageClient) *bulk.Ingestor {
		return bulk.NewIngestor(bulk.IngestorConfig{
			MaxInflightBulks: 8, AllowedTimeDrift: drift, FutureAllowedTimeDrift: fdrift, MappingProvider: mp,
			MaxTokenSize: 72, DocsZSTDCompressLevel: -1, MetasZSTDCompressLevel: -1, MaxDocumentSize: maxDoc,
		}, cl)
	}
	rec := &recClient{}
	ing := mkIngestor(rec)
	handler := proxyapi.NewBulkHandler(ing, maxDoc)

	st, err := sdb.Open(w.Sub("store"), sdb.Opt{Mapping: c10Mapping()})
	if err != nil {
		if w.Begin(map[string]any{"step": "open"}) {
			w.Violation("C10:store-did-not-start", map[string]any{"error": err.Error()})
		}
		return
	}
	defer st.Stop()

	seqno := 0
	mkValid := func(lr *h.Rng, target int) string {
		seqno++
		forced := [][2]string{{"seqno", fmt.Sprintf(`"b%d-%d"`, batch, seqno)}}
		d := gen.JSONDoc(lr, lr.Range(0, 6), lr.Range(0, 2), forced)
		if target > 0 {
			// pad to an exact length with a string member
			base := d[:len(d)-1] + `,"pad":"`
			if len(base)+2 <= target {
				d = base + strings.Repeat("p", target-len(base)-2) + `"}`
			}
		}
		return d
	}
	nReq := 120
	for qi := 0; qi < nReq; qi++ {
		lr := r.Fork()
		var lines []c10Line
		nDocs := lr.LogInt(1, 25)
		pMal := h.Pick(lr, []int{0, 0, 0, 10})
		pGrey := h.Pick(lr, []int{0, 0, 8})
		for i := 0; i < nDocs; i++ {
			k := lr.Intn(100)
			switch {
			case k < pMal:
				lines = append(lines, c10Line{h.Pick(lr, []string{`{"a":1`, `{"a":`, `hello`, `{"a":"unterminated}`, `{"a":[1,2}`, `{`, `}`, `{"a":1,"b"}`, `nul`}), "malformed"})
			case k < pMal+pGrey:
				lines = append(lines, c10Line{h.Pick(lr, []string{`{"a":1,}`, `{'a':1}`, `{"a":01}`, `{"a":+1}`, `{"a":NaN}`, `{"a":1} trailing`, `{"a":"tab	raw"}`, "{\"a\":\"\xff\xfe\"}", `{"a":1}{"b":2}`, `{a:1}`, `{"a":.5}`, `{"a":1e}`, `{"a":"\x"}`}), "grey"})
			case k < 30:
				lines = append(lines, c10Line{h.Pick(lr, []string{`[1,2,3]`, `"just a string"`, `123`, `null`, `true`, `[]`, `[{"a":1}]`, `-1.5e3`}), "nonobject"})
			case k < 40:
				// around the limit
				switch lr.Intn(3) {
				case 0:
					lines = append(lines, c10Line{mkValid(lr, maxDoc-lr.Range(4, 12)), ""})
				case 1:
					lines = append(lines, c10Line{mkValid(lr, maxDoc-lr.Range(0, 3)), ""})
				default:
					lines = append(lines, c10Line{mkValid(lr, maxDoc+lr.Range(1, 3000)), ""})
				}
			default:
				lines = append(lines, c10Line{mkValid(lr, 0), ""})
			}
			if last := &lines[len(lines)-1]; last.class == "" {
				// classify by the actual byte length
				switch {
				case len(last.text) > maxDoc:
					last.class = "oversize"
				case len(last.text) >= maxDoc-3:
					last.class = "band"
				default:
					last.class = "valid"
				}
			}
		}
		// assemble the body
		var body bytes.Buffer
		nl := h.Pick(lr, []string{"\n", "\n", "\r\n"})
		classes := map[string]int{}
		for i, ln := range lines {
			if lr.Chance(1, 12) {
				body.WriteString(nl) // blank line before an action line is tolerated
			}
			act := h.Pick(lr, []string{`{"index":{}}`, `{"create":{}}`, `{"index":{"_index":"x","_type":"y"}}`, `{ "index" : { } }`})
			body.WriteString(act)
			body.WriteString(nl)
			body.WriteString(ln.text)
			if i < len(lines)-1 || lr.Chance(3, 4) {
				body.WriteString(nl)
			}
			cl := ln.class
			if nl == "\r\n" && cl == "valid" && len(ln.text) >= maxDoc-4 {
				lines[i].class = "band"
				cl = "band"
			}
			classes[cl]++
		}
		gz := lr.Chance(1, 3)
		forward := lr.Chance(1, 3)
		var cls []string
		for _, c := range []string{"valid", "band", "oversize", "nonobject", "malformed", "grey"} {
			if classes[c] > 0 {
				cls = append(cls, fmt.Sprintf("%s:%d", c, classes[c]))
			}
		}
		desc := map[string]any{"part": "http", "max_document_size": maxDoc, "lines": strings.Join(cls, " "), "gzip": gz, "newline": fmt.Sprintf("%q", nl), "forward_to_store": forward, "body_len": body.Len()}
		if !w.Begin(desc) {
			continue
		}
		rec.take()
		rec.fwd = nil
		if forward {
			rec.fwd = st
		}
		payload := body.Bytes()
		req := httptest.NewRequest(http.MethodPost, "/_bulk", nil)
		if gz {
			var zb bytes.Buffer
			zw := gzip.NewWriter(&zb)
			zw.Write(payload)
			zw.Close()
			req = httptest.NewRequest(http.MethodPost, "/_bulk", &zb)
			req.Header.Set("Content-Encoding", "gzip")
		} else {
			req = httptest.NewRequest(http.MethodPost, "/_bulk", bytes.NewReader(payload))
		}
		rw := httptest.NewRecorder()
		if pn := h.Guard(func() { handler.ServeHTTP(rw, req) }); pn != "" {
			w.Violation("C10:handler-panicked", map[string]any{"panic": pn[:min(len(pn), 800)], "case": desc, "body": string(payload[:min(len(payload), 2000)])})
			continue
		}
		calls := rec.take()
		w.Count("requests", 1)
		w.Count("lines", int64(len(lines)))
		bad := c10Judge(lines, rw, calls, classes)
		if bad == "" && forward && len(calls) == 1 && rw.Code == 200 {
			// the stored bytes, as a real store serves them
			metas, _ := sdb.DecodeMetasBlock(calls[0].metas)
			docs, _ := sdb.DecodeDocsBlock(calls[0].docs)
			st.WaitIdle()
			var ids []model.ID
			var want [][]byte
			di := 0
			for _, m := range metas {
				if m.Size == 0 {
					continue
				}
				ids = append(ids, model.ID{MID: uint64(m.ID.MID), RID: uint64(m.ID.RID)})
				want = append(want, docs[di])
				di++
			}
			got, err := st.Fetch(ids, nil, nil)
			if err != nil {
				bad = "fetch from the real store failed: " + err.Error()
			}
			for i := 0; bad == "" && i < len(ids); i++ {
				if !bytes.Equal(got[i].Data, want[i]) {
					bad = fmt.Sprintf("store returned %.80q for %s, ingested %.80q", got[i].Data, ids[i], want[i])
				}
			}
			w.Count("docs_fetched_from_store", int64(len(ids)))
		}
		if bad != "" {
			w.Violation("C10:"+strings.SplitN(bad, ":", 2)[0], map[string]any{"diff": bad, "case": desc, "status": rw.Code, "response": rw.Body.String()[:min(rw.Body.Len(), 300)],
				"body": string(payload[:min(len(payload), 3000)])})
			continue
		}
		nt := classes["valid"] > 0 && (classes["oversize"]+classes["nonobject"]+classes["malformed"]+classes["grey"] > 0)
		if nt && w.WantSample() {
			w.Sample(map[string]any{"case": desc, "status": rw.Code, "store_calls": len(calls)})
		}
		enc := "plain"
		if gz {
			enc = "gzip"
		}
		w.Held(fmt.Sprintf("http|%s|%s|%d|%v", strings.Join(cls, ","), enc, rw.Code, nl == "\r\n"), nt)
	}

	// ---------- (B) time rule
	c10TimeRule(w, r, mkIngestor, drift, fdrift)

	// ---------- (C) several requests in flight through one ingestor: each one's storage call must carry exactly its own documents
	cr := r.Fork()
	crec := &recClient{hold: 300 * time.Microsecond}
	ching := proxyapi.NewBulkHandler(mkIngestor(crec), maxDoc)
	clients, perClient := cr.Range(3, 8), 12
	type creq struct {
		lines []c10Line
		body  []byte
		rw    *httptest.ResponseRecorder
	}
	reqs := make([][]*creq, clients)
	for ci := range reqs {
		for k := 0; k < perClient; k++ {
			q := &creq{}
			var sb strings.Builder
			for j := cr.Range(1, 12); j > 0; j-- {
				t := mkValid(cr, 0)
				if len(t) >= maxDoc-3 {
					continue // over-size or inside the don't-care band around the limit: only plainly valid documents here
				}
				q.lines = append(q.lines, c10Line{text: t, class: "valid"})
				sb.WriteString(`{"index":{}}` + "\n" + t + "\n")
			}
			q.body = []byte(sb.String())
			if len(q.lines) > 0 {
				reqs[ci] = append(reqs[ci], q)
			}
		}
	}
	cdesc := map[string]any{"part": "concurrent", "clients": clients, "requests_per_client": perClient}
	if w.Begin(cdesc) {
		var wg sync.WaitGroup
		for ci := range reqs {
			wg.Add(1)
			go func(mine []*creq) {
				defer wg.Done()
				for _, q := range mine {
					q.rw = httptest.NewRecorder()
					ching.ServeHTTP(q.rw, httptest.NewRequest("POST", "/_bulk", bytes.NewReader(q.body)))
				}
			}(reqs[ci])
		}
		wg.Wait()
		calls := crec.take()
		bad := ""
		if crec.mutated > 0 {
			bad = fmt.Sprintf("payload-mutated-in-flight: %d storage calls saw their payload change before the call returned", crec.mutated)
		}
		// a call belongs to the request whose first document it starts with
		byFirst := map[string]recCall{}
		for _, c := range calls {
			if docs, err := sdb.DecodeDocsBlock(c.docs); err == nil && len(docs) > 0 {
				byFirst[string(docs[0])] = c
			} else if bad == "" {
				bad = "bad-payload: a docs block of a concurrent request does not decode"
			}
		}
		n := 0
		for _, mine := range reqs {
			for _, q := range mine {
				n++
				if bad != "" {
					break
				}
				c, ok := byFirst[q.lines[0].text]
				if !ok {
					bad = fmt.Sprintf("lost-request: no storage call starts with the first document of an accepted request (status %d): %.80q", q.rw.Code, q.lines[0].text)
					break
				}
				bad = c10Judge(q.lines, q.rw, []recCall{c}, map[string]int{"valid": len(q.lines)})
			}
		}
		w.Count("concurrent_requests", int64(n))
		if bad == "" && len(calls) != n {
			bad = fmt.Sprintf("store-calls: %d StoreDocuments calls for %d requests", len(calls), n)
		}
		if bad != "" {
			w.Violation("C10:"+strings.SplitN(bad, ":", 2)[0]+":concurrent", map[string]any{"diff": bad, "case": cdesc})
		} else {
			w.Held(fmt.Sprintf("concurrent|c%d", clients), true)
		}
	}
}

// c10Judge compares the handler's response and the recorded storage call with what the body's lines demand.
func c10Judge(lines []c10Line, rw *httptest.ResponseRecorder, calls []recCall, classes map[string]int) string {
	if len(calls) > 1 {
		return fmt.Sprintf("store-calls: %d StoreDocuments calls for one request", len(calls))
	}
	if classes["malformed"] > 0 {
		if rw.Code >= 200 && rw.Code < 300 {
			return fmt.Sprintf("malformed-accepted: body holds %d malformed line(s) but the request was answered %d", classes["malformed"], rw.Code)
		}
		if len(calls) != 0 {
			return "malformed-stored: request rejected but StoreDocuments was called"
		}
		return ""
	}
	if rw.Code != 200 {
		if classes["grey"] > 0 {
			if len(calls) != 0 {
				return "rejected-but-stored: request answered " + fmt.Sprint(rw.Code) + " but StoreDocuments was called"
			}
			return ""
		}
		return fmt.Sprintf("valid-rejected: status %d for a body without malformed lines: %.200s", rw.Code, rw.Body.String())
	}
	var resp struct {
		Errors bool              `json:"errors"`
		Items  []json.RawMessage `json:"items"`
	}
	if err := json.Unmarshal(rw.Body.Bytes(), &resp); err != nil {
		return "bad-response: not JSON: " + err.Error()
	}
	var stored [][]byte
	var metas []frac.MetaData
	if len(calls) == 1 {
		var err error
		if stored, err = sdb.DecodeDocsBlock(calls[0].docs); err != nil {
			return "bad-payload: docs block does not decode: " + err.Error()
		}
		if metas, err = sdb.DecodeMetasBlock(calls[0].metas); err != nil {
			return "bad-payload: metas block does not decode: " + err.Error()
		}
		if calls[0].count != len(stored) {
			return fmt.Sprintf("bad-payload: count=%d but %d documents in the docs block", calls[0].count, len(stored))
		}
	}
	if len(resp.Items) != len(stored) {
		return fmt.Sprintf("wrong-item-count: response lists %d items, %d documents were handed to storage", len(resp.Items), len(stored))
	}
	// walk expected lines against stored documents
	si := 0
	for _, ln := range lines {
		switch ln.class {
		case "valid":
			if si >= len(stored) || !bytes.Equal(stored[si], []byte(ln.text)) {
				got := "<nothing>"
				if si < len(stored) {
					got = fmt.Sprintf("%.100q", stored[si])
				}
				return fmt.Sprintf("wrong-bytes: expected document %.100q at position %d of the stored payload, found %s", ln.text, si, got)
			}
			si++
		case "band", "grey":
			if si < len(stored) && bytes.Equal(stored[si], []byte(ln.text)) {
				si++
			}
		}
	}
	if si != len(stored) {
		return fmt.Sprintf("extra-document: stored payload holds a document no line accounts for: %.100q", stored[si])
	}
	// every document has exactly one sized meta, in order, with its size
	di := 0
	for _, m := range metas {
		if m.Size == 0 {
			continue // nested metadata points at its parent
		}
		if di >= len(stored) {
			return "bad-meta: more sized metas than documents"
		}
		if int(m.Size) != len(stored[di]) {
			return fmt.Sprintf("bad-meta: meta %d has size %d, document has %d bytes", di, m.Size, len(stored[di]))
		}
		di++
	}
	if di != len(stored) {
		return fmt.Sprintf("bad-meta: %d sized metas for %d documents", di, len(stored))
	}
	return ""
}

var c10TimeFields = []string{"timestamp", "time", "ts"}

var c10ESTimeRe = regexp.MustCompile(`^[0-9]{4}-[0-9]{2}-[0-9]{2} [0-9]{2}:[0-9]{2}:[0-9]{2}(\.[0-9]{1,9})?$`)

// c10NearMiss renders t in a supported format and damages it (trailing or leading text, wrong separator, zone on the ES form, no zone on
// the RFC form). The result is returned only when it is in none of the documented formats: the ES form
// "YYYY-MM-DD hh:mm:ss[.1-9 digits]" (judged by a pattern of my own) and RFC 3339 with or without fraction (judged by the standard library).
func c10NearMiss(r *h.Rng, t time.Time) (string, bool) {
	es := t.UTC().Format("2006-01-02 15:04:05.000")
	esNoFrac := t.UTC().Format("2006-01-02 15:04:05")
	rfc := t.UTC().Format("2006-01-02T15:04:05.000Z07:00")
	var s string
	switch r.Intn(14) {
	case 0:
		s = es + h.Pick(r, []string{"Z", "+03:00", "-07:00", "xyz", " ", " UTC", "0Z"})
	case 1:
		s = esNoFrac + h.Pick(r, []string{"Z", "+03:00", ".", " ", "x", ",123"})
	case 2:
		s = " " + es
	case 3:
		s = strings.Replace(es, ".", ",", 1)
	case 4:
		s = es[:10] + "  " + es[11:] // two blanks between date and time
	case 5:
		s = strings.Replace(es, " ", "T", 1) // RFC shape without a zone
	case 6:
		s = strings.Replace(es, "-", "/", 2)
	case 7:
		s = strings.TrimSuffix(rfc, "Z") + h.Pick(r, []string{"", "z", " Z", "+0300", "+03", "UTC"})
	case 8:
		s = rfc + h.Pick(r, []string{" ", "Z", "x", "+03:00"})
	case 9:
		s = strings.Replace(rfc, "T", " ", 1)
	case 10:
		s = es[:len(es)-4] + ".12a"
	case 11:
		s = es[2:] // two-digit year
	case 12:
		s = strings.Replace(es, ":", ".", 2)
	default:
		s = es + "\t"
	}
	if c10ESTimeRe.MatchString(s) {
		return "", false
	}
	if _, err := time.Parse(time.RFC3339Nano, s); err == nil {
		return "", false
	}
	if _, err := time.Parse(time.RFC3339, s); err == nil {
		return "", false
	}
	return s, true
}

func c10TimeRule(w *h.W, r *h.Rng, mk func(bulk.StorageClient) *bulk.Ingestor, drift, fdrift time.Duration) {
	rec := &recClient{}
	ing := mk(rec)
	n := 150
	for i := 0; i < n; i++ {
		tr := r.Fork()
		// request times over three years, and calendar corners (31st, leap day, month/year borders) one time in five
		reqTime := time.UnixMilli(int64(gen.T0) + int64(tr.U64()%94_608_000_000)).UTC()
		if tr.Chance(1, 5) {
			corner := h.Pick(tr, []time.Time{
				time.Date(2024, 1, 31, 12, 0, 0, 0, time.UTC), time.Date(2024, 2, 29, 0, 0, 0, 0, time.UTC), time.Date(2024, 3, 31, 23, 59, 59, 999e6, time.UTC),
				time.Date(2023, 12, 31, 23, 59, 59, 999e6, time.UTC), time.Date(2025, 1, 1, 0, 0, 0, 0, time.UTC), time.Date(2024, 10, 31, 0, 30, 0, 0, time.UTC),
				time.Date(2025, 2, 28, 23, 59, 59, 0, time.UTC), time.Date(2024, 12, 30, 23, 30, 0, 0, time.UTC),
			})
			reqTime = corner.Add(time.Duration(tr.Intn(3600_000)) * time.Millisecond)
		}
		type tf struct {
			field, text string
			parsed      time.Time
			ok          bool
			optional    bool // more fraction digits than nanoseconds: may be read as its value or skipped as unparsable
		}
		// offsets relative to the request time
		offClass := h.Pick(tr, []string{"now", "past-in", "past-at", "past-at+1ms", "past-out", "future-in", "future-at", "future-at+1ms", "future-out"})
		var off time.Duration
		switch offClass {
		case "now":
			off = 0
		case "past-in":
			off = -time.Duration(tr.Intn(int(drift/time.Millisecond))) * time.Millisecond
		case "past-at":
			off = -drift
		case "past-at+1ms":
			off = -drift - time.Millisecond
		case "past-out":
			off = -drift - time.Duration(tr.Range(2, 100000))*time.Millisecond
		case "future-in":
			off = time.Duration(tr.Intn(int(fdrift/time.Millisecond))) * time.Millisecond
		case "future-at":
			off = fdrift
		case "future-at+1ms":
			off = fdrift + time.Millisecond
		case "future-out":
			off = fdrift + time.Duration(tr.Range(2, 100000))*time.Millisecond
		}
		docTime := reqTime.Add(off)
		format := h.Pick(tr, []string{"es", "rfc3339nano", "rfc3339", "es-nofrac", "rfc3339-offset", "near-miss", "es-longfrac"})
		render := func(t time.Time) string {
			switch format {
			case "es":
				return t.Format("2006-01-02 15:04:05.000")
			case "es-nofrac":
				return t.Truncate(time.Second).Format("2006-01-02 15:04:05")
			case "es-longfrac":
				// more fraction digits than nanoseconds have: milliseconds, zeros down to the nanosecond, then 1-6 arbitrary digits below it
				extra := make([]byte, tr.Range(1, 6))
				for i := range extra {
					extra[i] = byte('0' + tr.Intn(10))
				}
				return t.Format("2006-01-02 15:04:05.000") + "000000" + string(extra)
			case "rfc3339nano":
				return t.Format(time.RFC3339Nano)
			case "rfc3339-offset":
				return t.In(time.FixedZone("x", 3*3600)).Format(time.RFC3339Nano)
			default:
				return t.Truncate(time.Second).Format(time.RFC3339)
			}
		}
		if format == "es-nofrac" || format == "rfc3339" {
			// whole seconds only: keep the offset class exact by moving the request time onto the same sub-second phase
			docTime = docTime.Truncate(time.Second)
			reqTime = docTime.Add(-off)
		}
		var fields []tf
		primary := h.Pick(tr, c10TimeFields)
		for _, f := range c10TimeFields {
			switch {
			case f == primary && format == "near-miss":
				// a value one edit away from a supported format: it matches none of them, so it must not decide the ID
				if nm, ok := c10NearMiss(tr, docTime); ok {
					fields = append(fields, tf{field: f, text: nm})
				} else {
					fields = append(fields, tf{field: f, text: "not a time"})
				}
			case f == primary:
				fields = append(fields, tf{field: f, text: render(docTime), parsed: docTime, ok: true, optional: format == "es-longfrac"})
			case tr.Chance(1, 3):
				// a field of higher or lower priority: unparsable, or parsable with another time
				if tr.Bool() {
					txt := h.Pick(tr, []string{"not a time", "2023-13-45 99:99:99", "", "1700000000", "yesterday"})
					if format == "near-miss" {
						if nm, ok := c10NearMiss(tr, reqTime.Add(-time.Duration(tr.Range(1, 3000))*time.Second)); ok {
							txt = nm
						}
					}
					fields = append(fields, tf{field: f, text: txt})
				} else {
					other := reqTime.Add(-time.Duration(tr.Range(1, 3000)) * time.Second).Truncate(time.Millisecond)
					fields = append(fields, tf{field: f, text: other.Format("2006-01-02 15:04:05.000"), parsed: other, ok: true})
				}
			}
		}
		// rule: first field in the order timestamp, time, ts whose value parses
		decide := func(skipOptional bool) (time.Time, string) {
			for _, f := range fields {
				if f.ok && !(skipOptional && f.optional) {
					d := reqTime.Sub(f.parsed)
					if d > drift || (d < 0 && -d > fdrift) {
						return reqTime, "request-time(drift)"
					}
					return f.parsed, "doc:" + f.field
				}
			}
			return reqTime, "request-time"
		}
		expect, decided := decide(false)
		// a fraction longer than nanoseconds is in no documented format and the statement does not say whether it "parses":
		// both readings are accepted (the value itself, or the field skipped as unparsable), any other time is a violation
		expectAlt, _ := decide(true)
		var forced [][2]string
		for _, j := range tr.Perm(len(fields)) {
			forced = append(forced, [2]string{fields[j].field, gen.JSONQuoteString(tr, fields[j].text)})
		}
		doc := gen.JSONObject(tr, 1, tr.Range(0, 3), forced)
		// generated members must not collide with the time fields
		desc := map[string]any{"part": "time-rule", "request_time": reqTime.Format(time.RFC3339Nano), "offset_class": offClass, "format": format, "primary": primary, "doc": doc, "expected": decided}
		if !w.Begin(desc) {
			continue
		}
		// make sure the generator did not add a second member with a time field name
		if o, err := decodeObj([]byte(doc)); err != nil || len(o) < len(forced) {
			w.Held("time|skip", false)
			continue
		}
		rec.take()
		sent := false
		total, err := ing.ProcessDocuments(context.Background(), reqTime, func() ([]byte, error) {
			if sent {
				return nil, nil
			}
			sent = true
			return []byte(doc), nil
		})
		calls := rec.take()
		bad := ""
		switch {
		case err != nil:
			bad = "process-error: " + err.Error()
		case total != 1 || len(calls) != 1:
			bad = fmt.Sprintf("not-stored: total=%d store calls=%d", total, len(calls))
		default:
			metas, derr := sdb.DecodeMetasBlock(calls[0].metas)
			if derr != nil || len(metas) == 0 {
				bad = "bad-payload: metas do not decode"
			} else if got, want := uint64(metas[0].ID.MID), uint64(expect.UnixMilli()); got != want && got != uint64(expectAlt.UnixMilli()) {
				bad = fmt.Sprintf("wrong-time: ID timestamp %d (%s), rule says %d (%s, %s)", got, time.UnixMilli(int64(got)).UTC().Format(time.RFC3339Nano), want, expect.Format(time.RFC3339Nano), decided)
			}
		}
		w.Count("time_rule_docs", 1)
		if bad != "" {
			w.Violation("C10:"+strings.SplitN(bad, ":", 2)[0]+":"+offClass, map[string]any{"diff": bad, "case": desc})
			continue
		}
		nt := strings.HasPrefix(decided, "doc:") || decided == "request-time(drift)"
		if nt && w.WantSample() {
			w.Sample(desc)
		}
		w.Held("time|"+primary+"|"+format+"|"+offClass+"|"+decided, nt)
	}
	ing.Stop()
}
