package props

import (
	"fmt"
	"sort"
	"strings"
	"time"

	"github.com/ozontech/seq-db/proxy/search"

	"verif/internal/gen"
	"verif/internal/h"
	"verif/internal/model"
	"verif/internal/sdb"
)

// C05 — results are independent of how documents are split over fractions, shards and replicas.

func init() {
	h.Register(&h.Prop{
		ID:    "C05",
		Level: "exploration",
		Rule: "case = (corpus, layout = shards x replicas x per-replica split into 1..6 fractions by a seeded rule (random / time slices / interleaved / one spanning / equal borders), " +
			"FractionsPerIteration, request incl. a page walk (offset,size)); non-trivial = >=2 fractions hit in some store and 0 < matches; " +
			"distinct = (layout rule, shards, replicas, fractions, fpi, order, tree shape class, paging class)",
		Assumptions: []string{
			"replicas of a shard hold the same documents; total/histogram/aggregations are judged only when the layout partitions the corpus (duplicated placements judge IDs and paging only)",
			"reference model over the union corpus",
		},
		Batches: tiered(144, 3840),
		Run:     runC05,
		Timeout: timeoutFor(3*time.Minute, 40*time.Minute),
	})
}

var layoutRules = []string{"random", "slices", "interleaved", "spanning", "equal-borders"}

// splitDocs partitions docs into k fractions following the rule. Returned groups are in ingestion order (each becomes one fraction).
func splitDocs(r *h.Rng, docs []*model.Doc, k int, rule string) [][]*model.Doc {
	if k < 1 {
		k = 1
	}
	sorted := append([]*model.Doc{}, docs...)
	sort.Slice(sorted, func(i, j int) bool { return sorted[i].ID.Less(sorted[j].ID) })
	out := make([][]*model.Doc, k)
	n := len(sorted)
	switch rule {
	case "slices":
		for i, d := range sorted {
			out[i*k/max(n, 1)] = append(out[i*k/max(n, 1)], d)
		}
	case "interleaved":
		for i, d := range sorted {
			out[i%k] = append(out[i%k], d)
		}
	case "spanning":
		for i, d := range sorted {
			if i == 0 || i == n-1 || r.Chance(1, 10) {
				out[0] = append(out[0], d)
			} else if k > 1 {
				j := 1 + (i*(k-1))/max(n, 1)
				out[j] = append(out[j], d)
			} else {
				out[0] = append(out[0], d)
			}
		}
	case "equal-borders":
		// slices, but documents sharing a timestamp with a slice border are spread over both neighbours
		for i, d := range sorted {
			j := i * k / max(n, 1)
			if j+1 < k && i+1 < n && sorted[i+1].ID.MID == d.ID.MID && r.Bool() {
				j++
			} else if j > 0 && i > 0 && sorted[i-1].ID.MID == d.ID.MID && r.Bool() {
				j--
			}
			out[j] = append(out[j], d)
		}
	default:
		for _, d := range sorted {
			j := r.Intn(k)
			out[j] = append(out[j], d)
		}
	}
	// fractions are created in a seeded order (creation order is independent of time order)
	perm := r.Perm(k)
	res := make([][]*model.Doc, 0, k)
	for _, i := range perm {
		if len(out[i]) > 0 {
			res = append(res, shuffled(r, out[i]))
		}
	}
	return res
}

// loadFractions ingests each group as its own fraction; the last one stays active with probability 1/2.
func loadFractions(st *sdb.Store, r *h.Rng, groups [][]*model.Doc) (string, error) {
	var forms []string
	for i, g := range groups {
		if err := ingest(st, g, r, r.Range(1, 3)); err != nil {
			return "", err
		}
		if i < len(groups)-1 || r.Bool() {
			st.SealAll()
			forms = append(forms, "s")
		} else {
			forms = append(forms, "a")
		}
	}
	return strings.Join(forms, ""), nil
}

func runC05(w *h.W, batch int) {
	r := w.Rng()
	nLayouts, perLayout := 4, 40
	for li := 0; li < nLayouts; li++ {
		cr := r.Fork()
		opt := gen.CorpusOpt{N: cr.LogInt(8, 500), Vocab: cr.Range(2, 6), MIDSpread: cr.LogInt(2, 300), SmallRID: cr.Chance(1, 4), MaxToks: 2, Agg: true, Groups: 6,
			Tag: fmt.Sprintf("b%dl%d", batch, li)}
		corp := gen.MakeCorpus(cr, opt)
		shards, replicas := cr.Range(1, 3), cr.Range(1, 3)
		fpi := h.Pick(cr, []int{1, 1, 2, 3, 100})
		rule := h.Pick(cr, layoutRules)
		dupPlacement := cr.Chance(1, 4)
		cl, err := sdb.OpenCluster(w.Sub(fmt.Sprintf("l%d", li)), shards, replicas, sdb.Opt{Mapping: StoreMapping(), FracsPerIter: fpi})
		if err != nil {
			if w.Begin(map[string]any{"step": "open"}) {
				w.Violation("C05:store-did-not-start", map[string]any{"error": err.Error()})
			}
			continue
		}
		cl.SeqQL = cr.Bool()
		parts := make([][]*model.Doc, shards)
		for _, d := range corp.Docs {
			s := cr.Intn(shards)
			parts[s] = append(parts[s], d)
			if dupPlacement && shards > 1 && cr.Chance(1, 5) {
				s2 := (s + 1 + cr.Intn(shards-1)) % shards
				parts[s2] = append(parts[s2], d)
			}
		}
		maxFracs := 0
		var layoutDesc []string
		var lerr error
		for s := 0; s < shards; s++ {
			for rep := 0; rep < replicas; rep++ {
				k := cr.Range(1, 6)
				groups := splitDocs(cr, parts[s], k, rule)
				if dupPlacement && len(groups) > 1 && cr.Chance(1, 3) && len(groups[0]) > 0 {
					// the same document also inside a second fraction of one store
					groups[1] = append(groups[1], groups[0][0])
				}
				forms, err := loadFractions(cl.Stores[s][rep], cr, groups)
				if err != nil {
					lerr = err
				}
				if len(groups) > maxFracs {
					maxFracs = len(groups)
				}
				layoutDesc = append(layoutDesc, fmt.Sprintf("s%dr%d:%s", s, rep, forms))
			}
		}
		if lerr != nil {
			if w.Begin(map[string]any{"step": "ingest"}) {
				w.Violation("C05:bulk-error", map[string]any{"error": lerr.Error()})
			}
			cl.Stop()
			continue
		}
		layout := fmt.Sprintf("N=%d rule=%s fpi=%d dup=%v %s", opt.N, rule, fpi, dupPlacement, strings.Join(layoutDesc, " "))
		for qi := 0; qi < perLayout; qi++ {
			qr := cr.Fork()
			q := corp.Query(qr, gen.QueryOpt{MaxDepth: qr.Range(0, 3)})
			if qr.Chance(1, 4) {
				q = &model.Q{Op: "all"}
			}
			from, to, _ := corp.TimeRange(qr)
			asc := qr.Bool()
			var text string
			if cl.SeqQL {
				text = q.SeqQL(qr)
			} else {
				text = q.Legacy(qr)
			}
			full := model.Search(corp.Docs, model.Req{Q: q, From: from, To: to, Asc: asc, Limit: 1 << 30})
			k := len(full.IDs)
			var interval uint64
			if qr.Chance(1, 3) {
				interval = uint64(h.Pick(qr, []int{1, 7, 100, 60000}))
			}
			var aggs []model.AggReq
			var paggs []search.AggQuery
			if qr.Chance(1, 3) {
				a := genAgg(qr)
				aggs = append(aggs, a)
				paggs = append(paggs, aggToProxy(a))
			}
			size := h.Pick(qr, []int{1, 2, 3, 5, 10, 1000})
			pclass := fmt.Sprintf("size%d", size)
			desc := map[string]any{"query": text, "seqql": cl.SeqQL, "from": from, "to": to, "asc": asc, "page_size": size, "hist_interval": interval, "aggs": aggs, "layout": layout}
			if !w.Begin(desc) {
				continue
			}
			bad := ""
			// page walk: offset = 0, size, 2*size ... until one page past the end
			var walked []model.ID
			pages := 0
			for off := 0; off <= k+size && bad == "" && pages < 60; off += size {
				res, err := cl.Search(sdb.ProxyReq{Query: text, From: from, To: to, Size: size, Offset: off, Asc: asc, WithTotal: true, Interval: interval, Aggs: paggs})
				pages++
				if err != nil {
					bad = "proxy error: " + err.Error()
					break
				}
				if res.Partial {
					bad = "partial response without any failure"
					break
				}
				lo, hi := min(off, k), min(off+size, k)
				if !idsEqual(res.IDs, full.IDs[lo:hi]) {
					bad = fmt.Sprintf("page offset=%d size=%d got=[%s] expected=[%s]", off, size, fmtIDs(res.IDs, 12), fmtIDs(full.IDs[lo:hi], 12))
					break
				}
				walked = append(walked, res.IDs...)
				if !dupPlacement {
					if res.QPR.Total != full.Total {
						bad = fmt.Sprintf("total at offset=%d got=%d expected=%d", off, res.QPR.Total, full.Total)
					} else if interval > 0 {
						exp := model.Search(corp.Docs, model.Req{Q: q, From: from, To: to, Asc: asc, Limit: 0, Interval: interval})
						if !histEqual(histFromQPR(res.QPR), exp.Hist) {
							bad = fmt.Sprintf("histogram at offset=%d got=%v expected=%v", off, res.QPR.Histogram, exp.Hist)
						}
					}
					for i := 0; bad == "" && i < len(aggs); i++ {
						ea := model.Aggregate(full.Docs, aggs[i])
						if s := compareSamples(ea, aggs[i], res.QPR.Aggs[i].SamplesByBin, res.QPR.Aggs[i].NotExists); s != "" {
							bad = fmt.Sprintf("aggregation at offset=%d: %s", off, s)
						}
					}
				}
			}
			if bad == "" && pages < 60 && !idsEqual(walked, full.IDs) {
				bad = fmt.Sprintf("concatenated pages differ from the full list: got %d ids, expected %d", len(walked), k)
			}
			// one direct store-level request per shard replica 0: the early-termination rule with this FractionsPerIteration
			if bad == "" {
				for s := 0; s < shards && bad == ""; s++ {
					lim := qr.Range(1, 12)
					exp := model.Search(parts[s], model.Req{Q: q, From: from, To: to, Asc: asc, Limit: lim})
					rep := qr.Intn(replicas)
					got, err := cl.Stores[s][rep].Search(sdb.SearchReq{Query: text, SeqQL: cl.SeqQL, From: from, To: to, Size: lim, Asc: asc})
					if err != nil {
						bad = "store error: " + err.Error()
					} else if !idsEqual(got.IDs, exp.IDs) {
						bad = fmt.Sprintf("store s%dr%d limit=%d got=[%s] expected=[%s]", s, rep, lim, fmtIDs(got.IDs, 12), fmtIDs(exp.IDs, 12))
					}
					w.Count("store_searches", 1)
				}
			}
			w.Count("pages", int64(pages))
			if bad != "" {
				class := "wrong-page"
				if strings.Contains(bad, "total") || strings.Contains(bad, "histogram") || strings.Contains(bad, "aggregation") {
					class = "wrong-summary"
				}
				if strings.Contains(bad, "error") {
					class = "error-returned"
				}
				w.Violation("C05:"+class, map[string]any{"diff": bad, "case": desc})
				continue
			}
			nontrivial := maxFracs >= 2 && k > 0
			if nontrivial && w.WantSample() {
				w.Sample(map[string]any{"case": desc, "matches": k, "pages": pages})
			}
			ord := "desc"
			if asc {
				ord = "asc"
			}
			shapeClass := "leaf"
			if q.Size() > 1 {
				shapeClass = "tree"
			}
			w.Held(fmt.Sprintf("%s|s%dr%d|f%d|fpi%d|%s|%s|%s|dup%v", rule, shards, replicas, maxFracs, fpi, ord, shapeClass, pclass, dupPlacement), nontrivial)
		}
		cl.Stop()
	}
}
