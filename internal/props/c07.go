package props

import (
	"bytes"
	"fmt"
	"runtime"
	"sort"
	"strings"
	"sync"
	"sync/atomic"
	"time"

	"verif/internal/gen"
	"verif/internal/h"
	"verif/internal/hk"
	"verif/internal/model"
	"verif/internal/sdb"
)

// C07 — concurrent ingest, search, fetch, sealing and rotation never corrupt readers.

func init() {
	h.Register(&h.Prop{
		ID:    "C07",
		Level: "exploration",
		Rule: "case = one concurrent run against a real store built with the race detector: maintenance loop every 2-5 ms, fraction size of a few KiB (dozens of rotations and background seals per run), cache of 64 KiB-1 MiB (constant eviction), no retention; " +
			"N in 2..8 writers with disjoint unique documents, M in 2..8 readers doing search -> immediate fetch of every returned ID (with and without hints), seeded delays at hooks between the index-update steps, seal/rotate hand-over and cache critical sections, GOMAXPROCS in {2,4,16}; " +
			"online monitors in the readers: every returned ID was submitted, satisfies the query and range, IDs strictly ordered, fetch returns exactly its bytes, no error; writers: no bulk error; process: no panic, no race report; " +
			"at quiescence (writers done, indexing idle, seals possibly still running): every acknowledged document visible and a battery of searches/histograms/fetches equals the model (= sequential ingestion), again after stop and reopen. " +
			"non-trivial = rotations and seals overlapped reader calls; distinct = (writers, readers, GOMAXPROCS, fraction size class, delay seed)",
		Assumptions: []string{
			"the scheduler is sampled, not enumerated; evidence reports rotations/seals overlapping reader calls and hook hits per point",
			"bounded progress: no completed bulk/search/fetch for 60 s with goroutines still outstanding, or a store that does not stop within 90 s, is reported as a stall (the statement's 'no deadlock'); the orchestrator's wall-clock watchdog stays inconclusive",
		},
		Batches: tiered(32, 256),
		Run:     runC07,
		Race:    true,
		Par:     8,
		Timeout: timeoutFor(3*time.Minute, 45*time.Minute),
	})
}

// c07Burst: many fresh active fractions, each hit by several writers at once whose bulks share their (new) tokens, while
// readers ask queries that rely on the ABSENCE of a token (NOT ...). A document that is visible before every one of its
// tokens is searchable shows up as a non-matching result. Seeded delays sit at the hooks between the queueing steps.
func c07Burst(w *h.W, batch int) {
	r := w.Rng(991)
	writers, readers := r.Range(2, 6), r.Range(2, 4)
	rounds := 60
	if !w.Quick() {
		rounds = 200
	}
	delaySeed := r.U64()
	desc := map[string]any{"mode": "fresh-fraction-burst", "writers": writers, "readers": readers, "rounds": rounds, "delay_seed": delaySeed}
	if !w.Begin(desc) {
		return
	}
	ctl := &hk.Ctl{Seed: delaySeed, Delay: map[string]bool{"*": true}, MaxSleep: 100 * time.Microsecond,
		Long: map[string]time.Duration{"tokenlist.new_tokens.created": 2 * time.Millisecond}}
	hk.Install(ctl)
	defer hk.Uninstall()
	st, err := sdb.Open(w.Sub("burst"), sdb.Opt{Mapping: StoreMapping(), FracSize: 1 << 30, SearchWorkers: 8})
	if err != nil {
		w.Violation("C07:store-did-not-start", map[string]any{"error": err.Error()})
		return
	}
	defer func() { stopBounded(st, 30*time.Second) }()
	var mu sync.Mutex
	bad, class := "", ""
	fail := func(c, format string, args ...any) {
		mu.Lock()
		if bad == "" {
			class, bad = c, fmt.Sprintf(format, args...)
		}
		mu.Unlock()
	}
	failed := func() bool { mu.Lock(); defer mu.Unlock(); return bad != "" }
	var searches, idsChecked atomic.Int64
	for round := 0; round < rounds && !failed(); round++ {
		rr := r.Fork()
		corp := gen.MakeCorpus(rr, gen.CorpusOpt{N: writers * 3, Vocab: 2, MIDSpread: 50, MaxToks: 2, BaseMID: gen.T0 + uint64(round)*1000, Tag: fmt.Sprintf("u%dr%d", batch, round)})
		byID := map[model.ID]*model.Doc{}
		for _, d := range corp.Docs {
			byID[d.ID] = d
		}
		type qi struct {
			q    *model.Q
			text string
		}
		var qs []qi
		for i := 0; i < 6; i++ {
			leaf := corp.Query(rr, gen.QueryOpt{MaxDepth: 0})
			if i%2 == 0 || leaf.Field == "" {
				f := leaf.Field
				if f == "" {
					f = "k1"
				}
				leaf = &model.Q{Op: "lit", Field: f, Pat: "*"}
			}
			q := &model.Q{Op: "not", Kids: []*model.Q{leaf}}
			qs = append(qs, qi{q, q.SeqQL(rr)})
		}
		from, to := gen.T0+uint64(round)*1000, gen.T0+uint64(round)*1000+999
		var wg sync.WaitGroup
		var done atomic.Int64
		gate := make(chan struct{})
		for wi := 0; wi < writers; wi++ {
			wg.Add(1)
			go func(docs []*model.Doc) {
				defer wg.Done()
				defer done.Add(1)
				<-gate
				if err := st.Bulk(docs); err != nil {
					fail("bulk-error:"+errSig(err.Error()), "burst bulk failed: %v", err)
				}
			}(corp.Docs[wi*3 : wi*3+3])
		}
		// a bulk is acknowledged before it is indexed: the readers go on until the index workers are idle
		var idle atomic.Bool
		wg.Add(1)
		go func() {
			defer wg.Done()
			<-gate
			for done.Load() < int64(writers) {
				runtime.Gosched()
			}
			st.WaitIdle()
			idle.Store(true)
		}()
		for ri := 0; ri < readers; ri++ {
			wg.Add(1)
			go func(ri int) {
				defer wg.Done()
				<-gate
				for k := 0; !idle.Load() && !failed(); k++ {
					q := qs[(ri+k)%len(qs)]
					res, err := st.Search(sdb.SearchReq{Query: q.text, SeqQL: true, From: from, To: to, Size: 100})
					searches.Add(1)
					if err != nil {
						fail("search-error:"+errSig(err.Error()), "burst search %q failed: %v", q.text, err)
						return
					}
					for _, id := range res.IDs {
						d := byID[id]
						if d == nil {
							fail("foreign-id", "burst search %q returned %s which is not part of this round", q.text, id)
							return
						}
						if !q.q.Match(d) {
							fail("wrong-match", "fresh fraction, %d concurrent first bulks: search %q returned %s whose tokens %v do not satisfy it", writers, q.text, id, d.Toks)
							return
						}
						idsChecked.Add(1)
					}
				}
			}(ri)
		}
		close(gate)
		wg.Wait()
		if !failed() {
			// the next round starts on a fresh active fraction (bounded: a seal that never ends is a stall, not a reason to hang)
			sealed := make(chan struct{})
			go func() { st.SealAll(); close(sealed) }()
			select {
			case <-sealed:
			case <-time.After(90 * time.Second):
				fail("stall-on-seal", "sealing the fraction of burst round %d did not finish within 90 s", round)
			}
		}
	}
	w.Count("burst_searches", searches.Load())
	w.Count("burst_ids_checked", idsChecked.Load())
	w.Count("burst_rounds", int64(rounds))
	if bad != "" {
		w.Violation("C07:"+class, map[string]any{"diff": bad, "run": desc})
		return
	}
	w.Held(fmt.Sprintf("burst|w%d|r%d|%d", writers, readers, delaySeed), searches.Load() > int64(rounds))
}

// stopBounded stops the store; false if Stop did not return within the bound (a background goroutine of the store is
// stuck - the statement's "no deadlock" covers the seal/maintenance goroutines Stop waits for). The bound is long against
// the work left (seals of a few KiB).
func stopBounded(st *sdb.Store, bound time.Duration) bool {
	done := make(chan struct{})
	go func() { st.Stop(); close(done) }()
	select {
	case <-done:
		return true
	case <-time.After(bound):
		return false
	}
}

func runC07(w *h.W, batch int) {
	defer c07Burst(w, batch)
	r := w.Rng()
	runs := 2
	for ri := 0; ri < runs; ri++ {
		rr := r.Fork()
		writers, readers := rr.Range(2, 8), rr.Range(2, 8)
		procs := h.Pick(rr, []int{2, 4, 16})
		fracKB := rr.Range(3, 24)
		bulksPerWriter := 40
		if !w.Quick() {
			bulksPerWriter = 120
		}
		delaySeed := rr.U64()
		desc := map[string]any{"writers": writers, "readers": readers, "gomaxprocs": procs, "frac_size_kib": fracKB, "bulks_per_writer": bulksPerWriter, "delay_seed": delaySeed}
		if !w.Begin(desc) {
			continue
		}
		prev := runtime.GOMAXPROCS(procs)
		var inflight atomic.Int64
		var overlapSeal, overlapRotate atomic.Int64
		ctl := &hk.Ctl{Seed: delaySeed, Delay: map[string]bool{"*": true}, MaxSleep: 150 * time.Microsecond,
			Long: map[string]time.Duration{"tokenlist.new_tokens.created": 3 * time.Millisecond}}
		ctl.OnAt = func(point string, n int64) {
			if inflight.Load() > 0 {
				switch point {
				case "pfrac.seal.published":
					overlapSeal.Add(1)
				case "fm.rotate.done":
					overlapRotate.Add(1)
				}
			}
		}
		hk.Install(ctl)
		st, err := sdb.Open(w.Sub(fmt.Sprintf("r%d", ri)), sdb.Opt{Mapping: StoreMapping(), FracSize: uint64(fracKB) * 1024, MaintenanceDelay: time.Duration(rr.Range(2, 5)) * time.Millisecond,
			CacheSize: uint64(h.Pick(rr, []int{64 << 10, 256 << 10, 1 << 20})), FracsPerIter: h.Pick(rr, []int{1, 2, 4}), SkipSortDocs: rr.Chance(1, 4), SearchWorkers: 16})
		if err != nil {
			hk.Uninstall()
			runtime.GOMAXPROCS(prev)
			w.Violation("C07:store-did-not-start", map[string]any{"error": err.Error()})
			continue
		}
		// corpora: disjoint unique documents per writer
		corp := gen.MakeCorpus(rr, gen.CorpusOpt{N: writers * bulksPerWriter * 6, Vocab: 4, MIDSpread: 3000, MaxToks: 2, BodyPad: 60, Tag: fmt.Sprintf("b%dr%d", batch, ri)})
		perWriter := make([][]*model.Doc, writers)
		for i, d := range corp.Docs {
			perWriter[i%writers] = append(perWriter[i%writers], d)
		}
		var submitted sync.Map // model.ID -> *model.Doc, written BEFORE the bulk is submitted
		var acked sync.Map
		type qItem struct {
			q    *model.Q
			text string
			ql   bool
		}
		var queries []qItem
		for i := 0; i < 40; i++ {
			q := corp.Query(rr, gen.QueryOpt{MaxDepth: rr.Range(0, 2)})
			if rr.Bool() {
				queries = append(queries, qItem{q, q.SeqQL(rr), true})
			} else {
				queries = append(queries, qItem{q, q.Legacy(rr), false})
			}
		}
		var mu sync.Mutex
		bad, class := "", ""
		fail := func(c, format string, args ...any) {
			mu.Lock()
			if bad == "" {
				class, bad = c, fmt.Sprintf(format, args...)
			}
			mu.Unlock()
		}
		failed := func() bool { mu.Lock(); defer mu.Unlock(); return bad != "" }
		var wg sync.WaitGroup
		var writersDone atomic.Int64
		var searches, fetches, idsChecked, bulksDone, running atomic.Int64
		running.Store(int64(writers + readers))
		// bounded progress (the statement's "no deadlock"): while writers are unfinished some bulk, search or fetch must complete
		stopWatch := w.StallWatch("C07:stall", 60*time.Second, func() int64 { return searches.Load() + fetches.Load() + bulksDone.Load() },
			func() bool { return running.Load() > 0 }, desc)
		for wi := 0; wi < writers; wi++ {
			wg.Add(1)
			wr := rr.Fork()
			go func(wi int, wr *h.Rng) {
				defer wg.Done()
				defer running.Add(-1)
				defer writersDone.Add(1)
				docs := perWriter[wi]
				for len(docs) > 0 && !failed() {
					n := min(len(docs), wr.Range(1, 12))
					bulk := docs[:n]
					docs = docs[n:]
					for _, d := range bulk {
						submitted.Store(d.ID, d)
					}
					if err := st.Bulk(bulk); err != nil {
						fail("bulk-error:"+errSig(err.Error()), "writer %d: bulk of %d documents failed: %v", wi, n, err)
						return
					}
					for _, d := range bulk {
						acked.Store(d.ID, d)
					}
					bulksDone.Add(1)
					if wr.Chance(1, 3) {
						time.Sleep(time.Duration(wr.Intn(400)) * time.Microsecond)
					}
				}
			}(wi, wr)
		}
		for ri2 := 0; ri2 < readers; ri2++ {
			wg.Add(1)
			rd := rr.Fork()
			go func(id int, rd *h.Rng) {
				defer wg.Done()
				defer running.Add(-1)
				for writersDone.Load() < int64(writers) && !failed() {
					qi := h.Pick(rd, queries)
					from, to, _ := corp.TimeRange(rd)
					if from > to {
						from, to = 0, 1<<62
					}
					asc := rd.Bool()
					size := rd.Range(1, 30)
					inflight.Add(1)
					res, err := st.Search(sdb.SearchReq{Query: qi.text, SeqQL: qi.ql, From: from, To: to, Size: size, Asc: asc, WithTotal: rd.Chance(1, 4)})
					searches.Add(1)
					if err != nil {
						inflight.Add(-1)
						fail("search-error:"+errSig(err.Error()), "reader %d: search %q failed: %v", id, qi.text, err)
						return
					}
					if !strictlyOrdered(res.IDs, asc) {
						inflight.Add(-1)
						fail("not-strictly-ordered", "reader %d: search %q returned IDs out of order or duplicated: %s", id, qi.text, fmtIDs(res.IDs, 30))
						return
					}
					var want [][]byte
					for _, rid := range res.IDs {
						v, ok := submitted.Load(rid)
						if !ok {
							inflight.Add(-1)
							fail("foreign-id", "reader %d: search %q returned ID %s which no writer submitted", id, qi.text, rid)
							return
						}
						d := v.(*model.Doc)
						if d.ID.MID < from || d.ID.MID > to || !qi.q.Match(d) {
							inflight.Add(-1)
							fail("wrong-match", "reader %d: search %q [%d,%d] returned %s whose tokens %v do not satisfy it", id, qi.text, from, to, rid, d.Toks)
							return
						}
						want = append(want, d.Body)
					}
					idsChecked.Add(int64(len(res.IDs)))
					if len(res.IDs) > 0 {
						var hints []string
						if rd.Bool() {
							hints = res.Hints
						}
						got, err := st.Fetch(res.IDs, hints, nil)
						fetches.Add(1)
						if err != nil {
							inflight.Add(-1)
							fail("fetch-error:"+errSig(err.Error()), "reader %d: fetch of %d just-returned IDs failed: %v", id, len(res.IDs), err)
							return
						}
						for i := range res.IDs {
							if i >= len(got) || got[i].ID != res.IDs[i] || !bytes.Equal(got[i].Data, want[i]) {
								var g []byte
								if i < len(got) {
									g = got[i].Data
								}
								inflight.Add(-1)
								fail("fetch-mismatch", "reader %d: ID %s returned by a search (hint %q, hints used %v) was fetched as %.60q, submitted %.60q", id, res.IDs[i], res.Hints[i], hints != nil, g, want[i])
								return
							}
						}
					}
					inflight.Add(-1)
				}
			}(ri2, rd)
		}
		wg.Wait()
		stopWatch()
		// ---- quiescence: writers idle
		if !failed() {
			st.WaitIdle()
			var docs []*model.Doc
			acked.Range(func(k, v any) bool { docs = append(docs, v.(*model.Doc)); return true })
			sort.Slice(docs, func(i, j int) bool { return docs[i].ID.Less(docs[j].ID) })
			if len(docs) != len(corp.Docs) {
				fail("not-all-acked", "%d of %d documents were acknowledged", len(docs), len(corp.Docs))
			}
			qc := &gen.Corpus{Docs: docs, Vocab: corp.Vocab, MinMID: corp.MinMID, MaxMID: corp.MaxMID}
			bat := makeBattery(rr, qc, batteryOpt{Searches: 25, Fetches: 5, MaxDepth: 2})
			check := func(stage string) {
				for _, q := range bat {
					if failed() {
						return
					}
					if c, diff := q.check(st); c != "" {
						fail("quiescent-"+c, "%s: %v: %s", stage, q.desc(stage, ""), diff)
					}
				}
			}
			check("writers idle (seals may still run)")
			hk.Uninstall()
			if !stopBounded(st, 90*time.Second) {
				fail("stall-on-stop", "the store did not stop within 90 s after the run (a seal or maintenance goroutine is stuck)")
			}
			if !failed() {
				st2, err := sdb.Open(st.Dir, sdb.Opt{Mapping: StoreMapping(), FracSize: 1 << 30})
				if err != nil {
					fail("store-did-not-start", "reopen after the run: %v", err)
				} else {
					st = st2
					check("after stop and reopen")
					st.Stop()
				}
			}
		} else {
			// the verdict is already known: record it before touching the store again (stopping may hang on the same defect)
			w.Violation("C07:"+class, map[string]any{"diff": bad, "run": desc})
			hk.Uninstall()
			stopBounded(st, 30*time.Second)
			runtime.GOMAXPROCS(prev)
			continue
		}
		runtime.GOMAXPROCS(prev)
		hits := ctl.Counts()
		for p, n := range hits {
			if strings.HasPrefix(p, "cache.") || strings.HasPrefix(p, "indexer.") || strings.HasPrefix(p, "pfrac.") || strings.HasPrefix(p, "fm.") || strings.HasPrefix(p, "seal.") {
				w.Count("hook:"+p, n)
			}
		}
		w.Count("searches", searches.Load())
		w.Count("fetches", fetches.Load())
		w.Count("ids_checked", idsChecked.Load())
		w.Count("rotations", hits["fm.rotate.done"])
		w.Count("seals", hits["pfrac.seal.published"])
		w.Count("seals_overlapping_reader_calls", overlapSeal.Load())
		w.Count("rotations_overlapping_reader_calls", overlapRotate.Load())
		if bad != "" {
			w.Violation("C07:"+class, map[string]any{"diff": bad, "run": desc})
			continue
		}
		nt := overlapSeal.Load() > 0 && overlapRotate.Load() > 0 && idsChecked.Load() > 0
		if nt && w.WantSample() {
			w.Sample(map[string]any{"run": desc, "rotations": hits["fm.rotate.done"], "seals": hits["pfrac.seal.published"], "seals_overlapping_reader_calls": overlapSeal.Load(), "searches": searches.Load(), "ids_checked": idsChecked.Load()})
		}
		w.Held(fmt.Sprintf("w%d|r%d|p%d|f%d|%d", writers, readers, procs, fracKB/8, delaySeed), nt)
	}
}
