package props

import (
	"fmt"
	"strings"
	"time"

	"github.com/ozontech/seq-db/parser"
	"github.com/ozontech/seq-db/seq"

	"verif/internal/h"
	"verif/internal/model"
	"verif/internal/sdb"
)

// C12 — query parsing is total and preserves the boolean meaning of the query.

func init() {
	h.Register(&h.Prop{
		ID:    "C12",
		Level: "exploration",
		Rule: "parts: (a) totality: grammar-derived and mutated byte strings (three quote kinds, escapes, comments, wildcards, pipes, unbalanced brackets, invalid UTF-8, the private-use wildcard rune) naming fields of every mapping type " +
			"(keyword, text, path, exists, object, tags, nested, multi-type, unmapped) and a nil mapping, through ParseSeqQL, ParseQuery, ParseAggregationFilter and through the store's Search handler on a live store: every call must return a query or an error (a panic caught at the call boundary or a dead worker refutes); " +
			"(b) meaning: every boolean tree up to the node bound over 3 atoms (plus in-lists and multi-word text atoms), rendered with minimal and with redundant parentheses in both languages, parsed, and the returned AST (after NOT propagation / NAND fusion) evaluated over all truth assignments against the truth table of the written expression. " +
			"case = one string (a) or one tree (b); non-trivial (a) = the string parses under some mapping and fails under another or is rejected with an error, (b) = the expression is neither a tautology nor a contradiction; distinct = (part, outcome vector | tree shape)",
		Assumptions: []string{
			"'never loops' is decided as bounded progress: the worker watchdog turns a hang into inconclusive with the in-flight string recorded",
			"NAND(children a,b) is read as (not a) and b, the reading the AST's own dump gives and the one the store's eval tree implements (cross-checked end-to-end by C02)",
		},
		Batches: tiered(192, 3840),
		Run:     runC12,
		Timeout: timeoutFor(3*time.Minute, 40*time.Minute),
	})
}

func c12Mapping() seq.Mapping {
	return seq.Mapping{
		"kw":         seq.NewSingleType(seq.TokenizerTypeKeyword, "", 0),
		"tx":         seq.NewSingleType(seq.TokenizerTypeText, "", 0),
		"pa":         seq.NewSingleType(seq.TokenizerTypePath, "", 0),
		"ex":         seq.NewSingleType(seq.TokenizerTypeExists, "", 0),
		"ob":         seq.NewSingleType(seq.TokenizerTypeObject, "", 0),
		"tg":         seq.NewSingleType(seq.TokenizerTypeTags, "", 0),
		"ne":         seq.NewSingleType(seq.TokenizerTypeNested, "", 0),
		"mt":         {Main: seq.MappingType{TokenizerType: seq.TokenizerTypeText}, All: []seq.MappingType{{Title: "mt", TokenizerType: seq.TokenizerTypeText}, {Title: "mt.keyword", TokenizerType: seq.TokenizerTypeKeyword, MaxSize: 18}}},
		"mt.keyword": seq.NewSingleType(seq.TokenizerTypeKeyword, "mt.keyword", 18),
		// multi-type field whose default (text) type is not listed first
		"mr":         {Main: seq.MappingType{TokenizerType: seq.TokenizerTypeText}, All: []seq.MappingType{{Title: "mr.keyword", TokenizerType: seq.TokenizerTypeKeyword, MaxSize: 18}, {Title: "mr", TokenizerType: seq.TokenizerTypeText}}},
		"mr.keyword": seq.NewSingleType(seq.TokenizerTypeKeyword, "mr.keyword", 18),
		"ob.inner":   seq.NewSingleType(seq.TokenizerTypeKeyword, "", 0),
		"k1":         seq.NewSingleType(seq.TokenizerTypeKeyword, "", 0),
		"k2":         seq.NewSingleType(seq.TokenizerTypeKeyword, "", 0),
		"k3":         seq.NewSingleType(seq.TokenizerTypeKeyword, "", 0),
		"t1":         seq.NewSingleType(seq.TokenizerTypeText, "", 0),
	}
}

var c12Fields = []string{"kw", "tx", "pa", "ex", "ob", "tg", "ne", "mt", "mr", "mr.keyword", "mt.keyword", "ob.inner", "zz", "_exists_", "_all_", "k1"}

var c12Frags = []string{" and ", " or ", " not ", "not ", "(", ")", "[", "]", "{", "}", ":", "*", "\"", "'", "`", "\\", "|", " | fields ", " except ", ",", " to ", " TO ", "in(", "#", "\n", "\t",
	"", "\xff", "\xc3", "é", "İ", "-", ".", "_", "0", "a", "ab", " ", "\\*", "\\\"", "**", "))", "((", "::"}

func c12Value(r *h.Rng) string {
	switch r.Intn(10) {
	case 0:
		return `"` + h.Pick(r, []string{"a b", "x*", "q\\\"uote", "", "multi word value", "*"}) + `"`
	case 1:
		return "'" + h.Pick(r, []string{"a b", "x*", "it\\'s", ""}) + "'"
	case 2:
		return "`" + h.Pick(r, []string{"raw * value", "a\\b", ""}) + "`"
	case 3:
		return "[" + h.Pick(r, []string{"1", "*", "a", `"x"`}) + h.Pick(r, []string{" to ", ", ", " TO "}) + h.Pick(r, []string{"5", "*", "z", `"y z"`}) + h.Pick(r, []string{"]", ")", "}"})
	case 4:
		return "in(" + h.Pick(r, []string{"a", "a,b", "a, 'b c', d*", ""}) + ")"
	case 5:
		return "*" + h.Pick(r, []string{"", "a", "a*", "a*b*"})
	case 6:
		return h.Pick(r, []string{"/var/log/x", "a-b", "a.b", "1e5", "-1", "ünï", "ПРИВЕТ"})
	default:
		return h.Pick(r, []string{"a", "b", "abc", "x1", "and", "or", "not", "to", "in"})
	}
}

func c12Grammar(r *h.Rng, depth int) string {
	if depth <= 0 || r.Chance(1, 3) {
		return h.Pick(r, c12Fields) + ":" + c12Value(r)
	}
	switch r.Intn(5) {
	case 0:
		return "not " + c12Grammar(r, depth-1)
	case 1:
		return "(" + c12Grammar(r, depth-1) + ")"
	case 2:
		return c12Grammar(r, depth-1) + " or " + c12Grammar(r, depth-1)
	case 3:
		return c12Grammar(r, depth-1) + " AND " + c12Grammar(r, depth-1)
	default:
		s := c12Grammar(r, depth-1)
		if r.Chance(1, 3) {
			s += " | fields " + h.Pick(r, []string{"a", "a, b", "except a", `"x y"`, ""})
		}
		return s
	}
}

func c12Mutate(r *h.Rng, s string) string {
	b := []byte(s)
	n := r.Range(1, 4)
	for i := 0; i < n; i++ {
		pos := 0
		if len(b) > 0 {
			pos = r.Intn(len(b) + 1)
		}
		switch r.Intn(6) {
		case 0: // insert fragment
			f := h.Pick(r, c12Frags)
			b = append(b[:pos], append([]byte(f), b[pos:]...)...)
		case 1: // delete a span
			if len(b) > 0 {
				e := min(len(b), pos+r.Range(1, 4))
				b = append(b[:min(pos, len(b))], b[e:]...)
			}
		case 2: // truncate
			b = b[:pos]
		case 3: // duplicate a span
			if len(b) > 0 {
				e := min(len(b), pos+r.Range(1, 8))
				b = append(b[:e], append(append([]byte{}, b[min(pos, e):e]...), b[e:]...)...)
			}
		case 4: // random byte
			if len(b) > 0 && pos < len(b) {
				b[pos] = byte(r.Intn(256))
			}
		default: // replace by fragment
			if len(b) > 0 && pos < len(b) {
				f := h.Pick(r, c12Frags)
				b = append(b[:pos], append([]byte(f), b[min(len(b), pos+1):]...)...)
			}
		}
	}
	if len(b) > 1024 {
		b = b[:1024]
	}
	return string(b)
}

func evalAST(n *parser.ASTNode, val func(string) bool) bool {
	switch t := n.Value.(type) {
	case *parser.Literal:
		return val(t.String())
	case *parser.Range:
		var sb strings.Builder
		t.Dump(&sb)
		return val(sb.String())
	case *parser.Logical:
		switch t.Operator {
		case parser.LogicalAnd:
			return evalAST(n.Children[0], val) && evalAST(n.Children[1], val)
		case parser.LogicalOr:
			return evalAST(n.Children[0], val) || evalAST(n.Children[1], val)
		case parser.LogicalNAnd:
			return !evalAST(n.Children[0], val) && evalAST(n.Children[1], val)
		case parser.LogicalNot:
			return !evalAST(n.Children[0], val)
		}
	}
	panic("evalAST: unknown node")
}

// atoms of part (b): name -> (query tree, variables it reads, formula over them)
type c12Atom struct {
	q    *model.Q
	vars []string // literal dump strings as the parsers produce them
	conj bool     // true: conjunction of vars (several words on a text field); false: disjunction (in-list) / single
}

var c12Atoms = []c12Atom{
	{q: &model.Q{Op: "lit", Field: "k1", Pat: "a"}, vars: []string{"k1:a"}},
	{q: &model.Q{Op: "lit", Field: "k2", Pat: "b"}, vars: []string{"k2:b"}},
	{q: &model.Q{Op: "lit", Field: "k3", Pat: "c"}, vars: []string{"k3:c"}},
	{q: &model.Q{Op: "in", Field: "k1", Pats: []string{"x", "y"}}, vars: []string{"k1:x", "k1:y"}},
	{q: &model.Q{Op: "lit", Field: "t1", Pat: "p q"}, vars: []string{"t1:p", "t1:q"}, conj: true},
	{q: &model.Q{Op: "lit", Field: "mr", Pat: "u-v"}, vars: []string{"mr:u", "mr:v"}, conj: true},
	{q: &model.Q{Op: "lit", Field: "mt", Pat: "r s"}, vars: []string{"mt:r", "mt:s"}, conj: true},
	// word characters are letters and numbers in the Unicode sense (No/Nl included), in both languages as in the indexer
	{q: &model.Q{Op: "lit", Field: "t1", Pat: "w ½ z"}, vars: []string{"t1:w", "t1:½", "t1:z"}, conj: true},
	{q: &model.Q{Op: "lit", Field: "t1", Pat: "m² Ⅳn"}, vars: []string{"t1:m²", "t1:ⅳn"}, conj: true},
}

type c12Tree struct {
	op   byte // 'v' atom, '!', '&', '|'
	atom int
	l, r *c12Tree
}

func (t *c12Tree) eval(val func(string) bool) bool {
	switch t.op {
	case 'v':
		a := c12Atoms[t.atom]
		if a.conj {
			for _, v := range a.vars {
				if !val(v) {
					return false
				}
			}
			return true
		}
		for _, v := range a.vars {
			if val(v) {
				return true
			}
		}
		return false
	case '!':
		return !t.l.eval(val)
	case '&':
		return t.l.eval(val) && t.r.eval(val)
	default:
		return t.l.eval(val) || t.r.eval(val)
	}
}

func (t *c12Tree) q() *model.Q {
	switch t.op {
	case 'v':
		return c12Atoms[t.atom].q
	case '!':
		return &model.Q{Op: "not", Kids: []*model.Q{t.l.q()}}
	case '&':
		return &model.Q{Op: "and", Kids: []*model.Q{t.l.q(), t.r.q()}}
	default:
		return &model.Q{Op: "or", Kids: []*model.Q{t.l.q(), t.r.q()}}
	}
}

func (t *c12Tree) shape() string {
	switch t.op {
	case 'v':
		return fmt.Sprint(t.atom)
	case '!':
		return "!" + t.l.shape()
	default:
		return string(t.op) + "(" + t.l.shape() + t.r.shape() + ")"
	}
}

// c12Trees enumerates every tree with exactly n nodes over the first nAtoms atoms.
func c12Trees(n, nAtoms int, memo map[int][]*c12Tree) []*c12Tree {
	if v, ok := memo[n]; ok {
		return v
	}
	var out []*c12Tree
	if n == 1 {
		for a := 0; a < nAtoms; a++ {
			out = append(out, &c12Tree{op: 'v', atom: a})
		}
	} else {
		for _, s := range c12Trees(n-1, nAtoms, memo) {
			out = append(out, &c12Tree{op: '!', l: s})
		}
		for ln := 1; ln <= n-2; ln++ {
			for _, l := range c12Trees(ln, nAtoms, memo) {
				for _, rr := range c12Trees(n-1-ln, nAtoms, memo) {
					out = append(out, &c12Tree{op: '&', l: l, r: rr}, &c12Tree{op: '|', l: l, r: rr})
				}
			}
		}
	}
	memo[n] = out
	return out
}

type fixedChooser int

func (f fixedChooser) Intn(n int) int { return int(f) % n }

func runC12(w *h.W, batch int) {
	r := w.Rng()
	mapping := c12Mapping()
	mappings := []struct {
		name string
		m    seq.Mapping
	}{{"typed", mapping}, {"nil", nil}}

	// live store for the handler surface
	st, err := sdb.Open(w.Sub("store"), sdb.Opt{Mapping: mapping})
	if err != nil {
		if w.Begin(map[string]any{"step": "open"}) {
			w.Violation("C12:store-did-not-start", map[string]any{"error": err.Error()})
		}
		return
	}
	st.Bulk([]*model.Doc{{ID: model.ID{MID: 1700000000000, RID: 1}, Body: []byte(`{"k1":"a"}`), Toks: []model.Tok{{F: "k1", V: "a"}, {F: "t1", V: "p"}}}})
	st.WaitIdle()

	// ---------- (a) totality
	nStr := 1800
	for i := 0; i < nStr; i++ {
		sr := r.Fork()
		var s string
		switch sr.Intn(10) {
		case 0:
			s = string(sr.Bytes(sr.LogInt(0, 60)))
		case 1:
			var b strings.Builder
			for k := sr.Range(1, 12); k > 0; k-- {
				b.WriteString(h.Pick(sr, c12Frags))
				if sr.Bool() {
					b.WriteString(h.Pick(sr, c12Fields))
				}
			}
			s = b.String()
		case 2, 3:
			s = c12Grammar(sr, sr.Range(0, 4))
		default:
			s = c12Mutate(sr, c12Grammar(sr, sr.Range(0, 4)))
		}
		if !w.Begin(map[string]any{"part": "totality", "query": s, "query_hex": fmt.Sprintf("%x", s)}) {
			continue
		}
		var outcome []string
		bad := ""
		try := func(name string, fn func() error) {
			if bad != "" {
				return
			}
			var err error
			if pn := h.Guard(func() { err = fn() }); pn != "" {
				first := strings.SplitN(pn, "\n", 2)[0]
				bad = name + " panicked: " + first
				outcome = append(outcome, "panic")
				w.Count("panics", 1)
				return
			}
			if err != nil {
				outcome = append(outcome, "err")
			} else {
				outcome = append(outcome, "ok")
			}
		}
		for _, mp := range mappings {
			mp := mp
			try("ParseSeqQL/"+mp.name, func() error { _, err := parser.ParseSeqQL(s, mp.m); return err })
			try("ParseQuery/"+mp.name, func() error { _, err := parser.ParseQuery(s, mp.m); return err })
		}
		try("ParseAggregationFilter", func() error { _, err := parser.ParseAggregationFilter(s); return err })
		for _, ql := range []bool{true, false} {
			ql := ql
			try(fmt.Sprintf("GrpcV1.Search/seqql=%v", ql), func() error {
				_, err := st.Search(sdb.SearchReq{Query: s, SeqQL: ql, From: 0, To: 1 << 62, Size: 3})
				return err
			})
		}
		w.Count("parse_calls", int64(len(outcome)))
		if bad != "" {
			sig := bad
			if i := strings.Index(sig, " panicked: "); i >= 0 {
				sig = sig[strings.Index(sig, "/")+1:]
				if j := strings.Index(bad, " panicked: "); j >= 0 {
					sig = "panic:" + errSig(bad[j+11:])
				}
			}
			w.Violation("C12:"+sig, map[string]any{"diff": bad, "query": s, "query_hex": fmt.Sprintf("%x", s)})
			continue
		}
		ov := strings.Join(outcome, ",")
		nt := strings.Contains(ov, "err")
		if nt && w.WantSample() {
			w.Sample(map[string]any{"query": s, "outcomes": ov})
		}
		w.Held("tot|"+ov, nt)
	}
	st.Stop()

	// ---------- (b) meaning
	maxNodes, nAtoms := 5, 3
	if !w.Quick() {
		maxNodes = 7
	}
	nb := nbOf("C12", w.Tier)
	memo := map[int][]*c12Tree{}
	ti := 0
	for n := 1; n <= maxNodes; n++ {
		for _, t := range c12Trees(n, nAtoms, memo) {
			ti++
			if ti%nb != batch {
				continue
			}
			c12CheckTree(w, t, mapping)
		}
	}
	// seeded larger trees incl. in-lists and multi-word text atoms
	nSeeded := 150
	for i := 0; i < nSeeded; i++ {
		tr := r.Fork()
		var mk func(d int) *c12Tree
		mk = func(d int) *c12Tree {
			if d <= 0 || tr.Chance(1, 4) {
				return &c12Tree{op: 'v', atom: tr.Intn(len(c12Atoms))}
			}
			switch tr.Intn(3) {
			case 0:
				return &c12Tree{op: '!', l: mk(d - 1)}
			case 1:
				return &c12Tree{op: '&', l: mk(d - 1), r: mk(d - 1)}
			}
			return &c12Tree{op: '|', l: mk(d - 1), r: mk(d - 1)}
		}
		c12CheckTree(w, mk(tr.Range(1, 4)), mapping)
	}
}

func c12CheckTree(w *h.W, t *c12Tree, mapping seq.Mapping) {
	q := t.q()
	type rendering struct{ lang, style, text string }
	var rs []rendering
	for _, st := range []struct {
		name string
		ch   model.Chooser
	}{{"minimal", fixedChooser(0)}, {"redundant", fixedChooser(4)}, {"mixed", fixedChooser(2)}} {
		rs = append(rs, rendering{"seqql", st.name, q.SeqQL(st.ch)}, rendering{"legacy", st.name, q.Legacy(st.ch)})
	}
	if !w.Begin(map[string]any{"part": "meaning", "tree": t.shape(), "seqql": rs[0].text, "legacy": rs[1].text}) {
		return
	}
	// variables
	varSet := map[string]bool{}
	var collect func(*c12Tree)
	collect = func(x *c12Tree) {
		if x.op == 'v' {
			for _, v := range c12Atoms[x.atom].vars {
				varSet[v] = true
			}
			return
		}
		collect(x.l)
		if x.r != nil {
			collect(x.r)
		}
	}
	collect(t)
	var vars []string
	for v := range varSet {
		vars = append(vars, v)
	}
	trues, total := 0, 1<<len(vars)
	bad := ""
	for _, rd := range rs {
		var root *parser.ASTNode
		var err error
		pn := h.Guard(func() {
			if rd.lang == "seqql" {
				var sq parser.SeqQLQuery
				sq, err = parser.ParseSeqQL(rd.text, mapping)
				root = sq.Root
			} else {
				root, err = parser.ParseQuery(rd.text, mapping)
			}
		})
		if pn != "" {
			bad = fmt.Sprintf("%s %q panicked: %.200s", rd.lang, rd.text, pn)
			break
		}
		if err != nil {
			bad = fmt.Sprintf("%s %q rejected: %v", rd.lang, rd.text, err)
			break
		}
		trues = 0
		for a := 0; a < total && bad == ""; a++ {
			val := func(name string) bool {
				for i, v := range vars {
					if v == name {
						return a>>i&1 == 1
					}
				}
				panic("unknown literal in the parsed tree: " + name)
			}
			var got bool
			if pn := h.Guard(func() { got = evalAST(root, val) }); pn != "" {
				bad = fmt.Sprintf("%s %q: AST has an unexpected leaf: %.160s", rd.lang, rd.text, strings.SplitN(pn, "\n", 2)[0])
				break
			}
			want := t.eval(val)
			if want {
				trues++
			}
			if got != want {
				asg := map[string]bool{}
				for i, v := range vars {
					asg[v] = a>>i&1 == 1
				}
				bad = fmt.Sprintf("%s (%s parentheses) %q: parsed tree %s evaluates to %v under %v, the written expression to %v", rd.lang, rd.style, rd.text, root.String(), got, asg, want)
			}
		}
		if bad != "" {
			break
		}
	}
	w.Count("trees", 1)
	w.Count("renderings_checked", int64(len(rs)))
	if bad != "" {
		w.Violation("C12:meaning-changed", map[string]any{"diff": bad, "tree": t.shape()})
		return
	}
	w.Held("tree|"+t.shape(), trues > 0 && trues < total)
}
