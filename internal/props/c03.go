package props

import (
	"fmt"
	"os"
	"path/filepath"
	"strings"
	"time"

	"verif/internal/gen"
	"verif/internal/h"
	"verif/internal/sdb"
)

// C03 — answers do not depend on fraction form: active = sealed = reloaded = any cache.

func init() {
	h.Register(&h.Prop{
		ID:    "C03",
		Level: "exploration",
		Rule: "case = (data shape aimed at a block boundary: >64Ki postings per token, postings ending at a LID-block edge, 4095/4096/4097/9000 IDs, dictionaries of 16383/16384/16385 B and several blocks, continued posting lists, random corpora; " +
			"sealing configuration: sorted-docs on/off, doc block size, zstd level; form: active / sealed in-process / reopened from files without and with .frac-cache / tiny cache / after cache reset; one request of a fixed battery of searches, histograms, aggregations, fetch lists); " +
			"every form must answer every request like the model; non-trivial = request matches some but not all documents (or fetches >1 ID); distinct = (shape, form, request kind/tree shape)",
		Assumptions: []string{
			"block constants are compile-time: shapes are built to hit them, they are not shrunk",
			"the .frac-cache form waits for the maintenance loop to write the file (logical event, bounded polling)",
		},
		Batches: tiered(72, 1440),
		Run:     runC03,
		Par:     8,
		Timeout: timeoutFor(3*time.Minute, 45*time.Minute),
	})
}

func runC03(w *h.W, batch int) {
	r := w.Rng()
	kind := gen.ShapeKinds[batch%len(gen.ShapeKinds)]
	variant := batch / len(gen.ShapeKinds)
	if w.Quick() {
		// quick: 12 batches = 8 kinds + 4 extra variants of the most intricate ones
		if batch >= len(gen.ShapeKinds) {
			kind = []string{"big-dict", "ids-blocks", "dict-exact", "lid-fill"}[(batch-len(gen.ShapeKinds))%4]
			variant = 1 + r.Intn(3)
		}
	}
	sh := gen.MakeShape(r, kind, variant, fmt.Sprintf("b%d", batch))
	corp := sh.Corpus
	// a third of the batches move the corpus to 11 min .. 22 h before the present and stretch it over many minutes: only then
	// does sealing build the minute-level occupancy map (and only for documents older than 10 minutes), i.e. the sealed and
	// reloaded forms prune by a structure the active form does not have. The map is monotone: order and ties are kept.
	recent := ""
	if batch%3 == 2 && len(corp.Docs) > 0 {
		recent = moveToRecentPast(r, corp)
	}
	nReq := 100
	if len(corp.Docs) > 60000 {
		nReq = 40
	}
	bat := makeBattery(r, corp, batteryOpt{Searches: nReq, Fetches: nReq / 5, Aggs: kind == "random" || kind == "many-fields", Hot: sh.Hot})
	opt := sdb.Opt{Mapping: StoreMapping(), SkipSortDocs: r.Chance(1, 3), DocBlockSize: h.Pick(r, []int{1024, 16384, 4 << 20}), ZstdLevel: h.Pick(r, []int{-5, 1, 3, 9})}
	dir := w.Sub("store")
	cfgDesc := fmt.Sprintf("shape=%s docs=%d skipSort=%v docBlock=%d zstd=%d", sh.Name, len(corp.Docs), opt.SkipSortDocs, opt.DocBlockSize, opt.ZstdLevel) + recent

	fail := func(step string, err error) {
		if w.Begin(map[string]any{"corpus": cfgDesc, "step": step}) {
			w.Violation("C03:"+step+":"+errSig(err.Error()), map[string]any{"error": err.Error()})
		}
	}
	st, err := sdb.Open(dir, opt)
	if err != nil {
		fail("store-did-not-start", err)
		return
	}
	// half of the batches lay the data out over two fractions sealed one after the other in the same process:
	// the first one is then served from tables built while sealing, after a later seal went through the same code
	twoFracs := batch%2 == 1 && len(corp.Docs) > 10
	all := shuffled(r, corp.Docs)
	first := all
	if twoFracs {
		first = all[:len(all)/2]
	}
	if err := ingest(st, first, r, r.Range(1, 8)); err != nil {
		fail("bulk-error", err)
		return
	}
	if twoFracs {
		st.SealAll()
		if err := ingest(st, all[len(all)/2:], r, r.Range(1, 8)); err != nil {
			fail("bulk-error", err)
			return
		}
		cfgDesc += " layout=sealed+active"
	}
	runForm := func(form string) {
		for _, q := range bat {
			if !w.Begin(q.desc(form, cfgDesc)) {
				continue
			}
			class, diff := q.check(st)
			w.Count("requests", 1)
			w.Count("requests_"+form, 1)
			if class != "" {
				w.Violation("C03:"+class+":"+form+":"+strings.SplitN(sh.Name, "-", 2)[0], map[string]any{"diff": diff, "request": q.desc(form, cfgDesc)})
				continue
			}
			nt := q.nontrivial(len(corp.Docs))
			if nt && w.WantSample() {
				w.Sample(q.desc(form, cfgDesc))
			}
			k := q.Kind
			if k == "search" {
				k = q.Shape
				if len(q.Aggs) > 0 {
					k += "+agg"
				}
			}
			w.Held(sh.Name+"|"+form+"|"+k, nt)
		}
	}
	runForm("active")
	st.SealAll()
	runForm("sealed-preloaded")
	st.S.ResetCache()
	runForm("sealed-cache-reset")
	// reopen from files; no .frac-cache yet (maintenance loop idle) => info read from the index header
	st.Stop()
	os.Remove(filepath.Join(dir, ".frac-cache"))
	if st, err = sdb.Open(dir, opt); err != nil {
		fail("store-did-not-start", err)
		return
	}
	runForm("reloaded")
	st.Stop()
	// let the maintenance loop write .frac-cache, then reopen with it
	o2 := opt
	o2.MaintenanceDelay = 5 * time.Millisecond
	if st, err = sdb.Open(dir, o2); err != nil {
		fail("store-did-not-start", err)
		return
	}
	ok := false
	for i := 0; i < 2000; i++ {
		if b, err := os.ReadFile(filepath.Join(dir, ".frac-cache")); err == nil && strings.Contains(string(b), "seq-db-") {
			ok = true
			break
		}
		time.Sleep(5 * time.Millisecond)
	}
	st.Stop()
	if !ok {
		if w.Begin(map[string]any{"corpus": cfgDesc, "step": "frac-cache"}) {
			w.Inconclusive("frac-cache file never appeared")
		}
	} else {
		if st, err = sdb.Open(dir, opt); err != nil {
			fail("store-did-not-start", err)
			return
		}
		runForm("reloaded-frac-cache")
		st.Stop()
	}
	// tiny cache: constant eviction
	o3 := opt
	o3.CacheSize = uint64(h.Pick(r, []int{4 << 10, 64 << 10, 1 << 20}))
	if st, err = sdb.Open(dir, o3); err != nil {
		fail("store-did-not-start", err)
		return
	}
	runForm("tiny-cache")
	st.Stop()
}
