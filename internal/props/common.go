// Package props holds one file per property: workload + oracle wiring + evidence keys.
package props

import (
	"bytes"
	"fmt"
	"os"
	"path/filepath"
	"regexp"
	"strings"
	"time"

	"github.com/ozontech/seq-db/seq"

	"verif/internal/gen"
	"verif/internal/h"
	"verif/internal/model"
	"verif/internal/sdb"
)

// StoreMapping is the field mapping of store-level corpora (explicit tokens).
func StoreMapping() seq.Mapping {
	return seq.Mapping{
		"k1": sdb.Keyword(), "k2": sdb.Keyword(), "k3": sdb.Keyword(),
		gen.NumField: sdb.Keyword(), gen.TextField: sdb.Text(),
		"g1": sdb.Keyword(), "g2": sdb.Keyword(), "v1": sdb.Keyword(), "v2": sdb.Keyword(),
	}
}

func timeoutFor(quick, thorough time.Duration) func(string) time.Duration {
	return func(tier string) time.Duration {
		if tier == "thorough" {
			return thorough
		}
		return quick
	}
}

// nbOf is the number of batches of a property in a tier (exhaustive parts split their space by batch index).
func nbOf(id, tier string) int { return h.Registry[id].Batches(tier) }

func tiered(quick, thorough int) func(string) int {
	return func(tier string) int {
		if tier == "thorough" {
			return thorough
		}
		return quick
	}
}

// ingest sends docs to the store in nb bulks (arrival order = the given slice order).
func ingest(st *sdb.Store, docs []*model.Doc, r *h.Rng, nb int) error {
	if nb < 1 {
		nb = 1
	}
	if nb > len(docs) {
		nb = len(docs)
	}
	if len(docs) == 0 {
		return nil
	}
	// random cut points
	cuts := map[int]bool{}
	for len(cuts) < nb-1 {
		cuts[1+r.Intn(len(docs)-1)] = true
	}
	start := 0
	for i := 1; i <= len(docs); i++ {
		if i == len(docs) || cuts[i] {
			if err := st.Bulk(docs[start:i]); err != nil {
				return err
			}
			start = i
		}
	}
	st.WaitIdle()
	return nil
}

func shuffled(r *h.Rng, docs []*model.Doc) []*model.Doc {
	out := make([]*model.Doc, len(docs))
	for i, j := range r.Perm(len(docs)) {
		out[i] = docs[j]
	}
	return out
}

type searchCase struct {
	Query     string `json:"query"`
	Lang      string `json:"lang"`
	From      uint64 `json:"from"`
	To        uint64 `json:"to"`
	Asc       bool   `json:"asc"`
	Limit     int    `json:"limit"`
	Offset    int    `json:"offset,omitempty"`
	WithTotal bool   `json:"with_total"`
	Interval  uint64 `json:"interval,omitempty"`
	Form      string `json:"form"`
	Corpus    string `json:"corpus"`
}

func idsEqual(a, b []model.ID) bool {
	if len(a) != len(b) {
		return false
	}
	for i := range a {
		if a[i] != b[i] {
			return false
		}
	}
	return true
}

func fmtIDs(ids []model.ID, max int) string {
	var b bytes.Buffer
	for i, id := range ids {
		if i >= max {
			fmt.Fprintf(&b, " …(%d more)", len(ids)-max)
			break
		}
		if i > 0 {
			b.WriteByte(' ')
		}
		b.WriteString(id.String())
	}
	return b.String()
}

// strictlyOrdered checks the property's own ordering clause independently of the model's expected list.
func strictlyOrdered(ids []model.ID, asc bool) bool {
	for i := 1; i < len(ids); i++ {
		if asc {
			if !ids[i-1].Less(ids[i]) {
				return false
			}
		} else if !ids[i].Less(ids[i-1]) {
			return false
		}
	}
	return true
}

func histEqual(a, b map[uint64]uint64) bool {
	na, nb := 0, 0
	for k, v := range a {
		if v == 0 {
			continue
		}
		na++
		if b[k] != v {
			return false
		}
	}
	for _, v := range b {
		if v != 0 {
			nb++
		}
	}
	return na == nb
}

func rangeClassOf(c *gen.Corpus, from, to uint64) string {
	switch {
	case from > to:
		return "inverted"
	case from <= c.MinMID && to >= c.MaxMID:
		return "covering"
	case to < c.MinMID || from > c.MaxMID:
		return "outside"
	case from == to:
		return "point"
	}
	return "partial"
}

var sigDigits = regexp.MustCompile(`[0-9]+`)
var sigFrac = regexp.MustCompile(`seq-db-[0-9A-Z]{26}`)

// errSig reduces an error text to a stable class: fraction names and numbers removed, cut to 90 bytes.
func errSig(s string) string {
	s = sigFrac.ReplaceAllString(s, "<frac>")
	s = sigDigits.ReplaceAllString(s, "N")
	if len(s) > 90 {
		s = s[:90]
	}
	return s
}

// waitFracCache waits (bounded polling on a logical event) until the maintenance loop has written .frac-cache.
func waitFracCache(dir string) bool {
	for i := 0; i < 2000; i++ {
		if b, err := os.ReadFile(filepath.Join(dir, ".frac-cache")); err == nil && strings.Contains(string(b), "seq-db-") {
			return true
		}
		time.Sleep(5 * time.Millisecond)
	}
	return false
}

// moveToRecentPast maps the corpus' timestamps monotonically (order and ties kept) to 11 min .. 22 h before the present,
// stretched over 25..1300 minutes: only then does sealing build the minute-level occupancy map (and only for documents
// older than 10 minutes), which the sealed and reloaded forms use for pruning. Returns a description for the case record.
func moveToRecentPast(r *h.Rng, corp *gen.Corpus) string {
	now := uint64(time.Now().UnixMilli())
	spanMin := uint64(h.Pick(r, []int{25, 90, 600, 1300}))
	lo, hi := corp.Docs[0].ID.MID, corp.Docs[0].ID.MID
	for _, d := range corp.Docs {
		lo, hi = min(lo, d.ID.MID), max(hi, d.ID.MID)
	}
	base := now - (spanMin+11)*60000
	for _, d := range corp.Docs {
		d.ID.MID = base + (d.ID.MID-lo)*spanMin*60000/max(hi-lo, 1)
	}
	corp.MinMID, corp.MaxMID = base, base+spanMin*60000
	return fmt.Sprintf(" recent(now=%d span=%dmin)", now, spanMin)
}
