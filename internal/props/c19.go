package props

import (
	"context"
	"encoding/json"
	"fmt"
	"math"
	"os"
	"path/filepath"
	"sort"
	"strings"
	"time"

	"google.golang.org/protobuf/types/known/timestamppb"

	"github.com/ozontech/seq-db/mappingprovider"
	"github.com/ozontech/seq-db/pkg/seqproxyapi/v1"
	"github.com/ozontech/seq-db/proxy/search"
	"github.com/ozontech/seq-db/proxyapi"
	"github.com/ozontech/seq-db/seq"

	"verif/internal/gen"
	"verif/internal/h"
	"verif/internal/model"
	"verif/internal/sdb"
)

// C19 — a finished asynchronous search equals the synchronous one and survives restarts.

func init() {
	h.Register(&h.Prop{
		ID:    "C19",
		Level: "fault_enumeration",
		Rule: "part (A) store handlers with restart injection: per corpus (group values with '|', quotes, unicode; negative/fractional numbers) laid out over 2..6 fractions, a dry run counts the durable writes of one asynchronous search (request info, one partial result per fraction, final info); " +
			"then, each from a pristine copy in fresh processes: crash after the k-th durable write for every k (and before the request is marked done), restart, poll until done, compare IDs/histogram/aggregation summaries with the synchronous search of the restarted store and IDs with the model; " +
			"the first request of every corpus also runs under strace (every .info/.qpr file is renamed into place only after its writes are covered by a completed fsync); late-fraction scenarios: the worker is frozen after its k-th durable write, the store seals, ingests, seals and ingests again (documents in a fraction created after the start), crashes, restarts: the resumed result must equal the synchronous search taken right before the start and contain no document of the later fraction; " +
			"part (B) the proxy library (1..3 shards) and the proxy's public handlers (StartAsyncSearch/FetchAsyncSearchResult vs ComplexSearch) on the same kind of cases without restarts. " +
			"case = one (corpus, request, k) or one (surface, request); non-trivial = the result is non-empty and, for (A), the crash point was reached; distinct = (surface, k, fractions, request class)",
		Assumptions: []string{
			"documents ingested after the start into a fraction that already existed at the start (the then-empty active fraction) may or may not be part of the result: tolerated, and then only IDs are judged; documents of fractions created later must be absent",
			"a crash before the start call returned may lose the request (not acknowledged): such cases are tallied, not judged",
			"rendered aggregation buckets are compared only for aggregations without a time interval (the asynchronous path does not carry the interval to the proxy)",
		},
		Batches: tiered(72, 720),
		Run:     runC19,
		Timeout: timeoutFor(3*time.Minute, 45*time.Minute),
	})
}

func cmpDigest(a, b searchDigest) string {
	if a.Err != "" || b.Err != "" {
		return fmt.Sprintf("errors: %q vs %q", a.Err, b.Err)
	}
	if !idsEqual(a.IDs, b.IDs) {
		return fmt.Sprintf("ids differ: %d [%s] vs %d [%s]", len(a.IDs), fmtIDs(a.IDs, 8), len(b.IDs), fmtIDs(b.IDs, 8))
	}
	if !histEqual(a.Hist, b.Hist) {
		return fmt.Sprintf("histogram differs: %v vs %v", a.Hist, b.Hist)
	}
	if len(a.Aggs) != len(b.Aggs) {
		// a search over no fraction at all has no partial result to carry aggregations: an absent list equals all-empty aggregations
		empty := func(d searchDigest) bool {
			for _, x := range d.Aggs {
				if len(x.Bins) != 0 || x.NotExists != 0 {
					return false
				}
			}
			return true
		}
		if (len(a.Aggs) == 0 && empty(b)) || (len(b.Aggs) == 0 && empty(a)) {
			return ""
		}
		return fmt.Sprintf("number of aggregations differs: %d vs %d", len(a.Aggs), len(b.Aggs))
	}
	for i := range a.Aggs {
		x, y := a.Aggs[i], b.Aggs[i]
		if x.NotExists != y.NotExists {
			return fmt.Sprintf("agg %d not_exists %d vs %d", i, x.NotExists, y.NotExists)
		}
		if len(x.Bins) != len(y.Bins) {
			return fmt.Sprintf("agg %d has %d bins vs %d", i, len(x.Bins), len(y.Bins))
		}
		for k, bx := range x.Bins {
			by, ok := y.Bins[k]
			if !ok {
				return fmt.Sprintf("agg %d bin %q missing on one side", i, k)
			}
			if bx.Total != by.Total || bx.NotExists != by.NotExists || (bx.Total > 0 && (bx.Min != by.Min || bx.Max != by.Max)) || !model.Close(bx.Sum, by.Sum, math.Abs(bx.Sum)+math.Abs(by.Sum)) {
				return fmt.Sprintf("agg %d bin %q differs: %+v vs %+v", i, k, bx, by)
			}
			if len(bx.Samples) != len(by.Samples) {
				return fmt.Sprintf("agg %d bin %q samples %d vs %d", i, k, len(bx.Samples), len(by.Samples))
			}
			for j := range bx.Samples {
				if bx.Samples[j] != by.Samples[j] {
					return fmt.Sprintf("agg %d bin %q sample %d: %v vs %v", i, k, j, bx.Samples[j], by.Samples[j])
				}
			}
		}
	}
	return ""
}

func c19Corpus(r *h.Rng, tag string) *gen.Corpus {
	corp := gen.MakeCorpus(r, gen.CorpusOpt{N: r.LogInt(10, 400), Vocab: 3, MIDSpread: r.LogInt(3, 2000), MaxToks: 1, Agg: true, Groups: r.Range(1, 12), Tag: tag})
	// group values that stress the JSON/key encoding of persisted partial results
	ren := map[string]string{"ga": "a|b", "gb": `q"x`, "g-c": "ünï", "g.d": "|lead|"}
	for i, d := range corp.Docs {
		for i := range d.Toks {
			if d.Toks[i].F == "g1" {
				d.Toks[i].V = ren[d.Toks[i].V]
			}
		}
		// words of a text field: a phrase query on it is a conjunction of words only when the query is parsed with the mapping
		if i%3 != 2 {
			d.Toks = append(d.Toks, model.Tok{F: "t1", V: "phrasea"})
		}
		if i%3 == 0 {
			d.Toks = append(d.Toks, model.Tok{F: "t1", V: "phraseb"})
		}
	}
	return corp
}

func c19Request(r *h.Rng, corp *gen.Corpus, id string) (asyncReq, *model.Q) {
	q := corp.Query(r, gen.QueryOpt{MaxDepth: r.Range(0, 2)})
	if r.Chance(1, 3) {
		q = &model.Q{Op: "all"}
	}
	from, to, _ := corp.TimeRange(r)
	if from > to || r.Bool() {
		from, to = 0, 1<<62
	}
	ar := asyncReq{ID: id, Query: q.SeqQL(r), From: from, To: to, Asc: r.Bool(), Size: len(corp.Docs) + 10}
	if r.Bool() {
		ar.Interval = uint64(h.Pick(r, []int{1, 10, 1000, 60000}))
	}
	for i := r.Range(0, 2); i > 0; i-- {
		a := genAgg(r)
		a.Interval = 0
		if r.Chance(1, 3) && a.Func != "unique" {
			a.Interval = uint64(h.Pick(r, []int{10, 1000}))
		}
		ar.Aggs = append(ar.Aggs, a)
	}
	return ar, q
}

func runC19(w *h.W, batch int) {
	if batch%3 == 2 {
		c19Proxy(w, batch)
		return
	}
	r := w.Rng()
	work := w.Sub("c19")
	pristine := filepath.Join(work, "pristine")
	os.MkdirAll(pristine, 0o755)
	corp := c19Corpus(r, fmt.Sprintf("b%d", batch))
	nFrac := r.Range(2, 6)
	groups := splitDocs(r, corp.Docs, nFrac, h.Pick(r, layoutRules))
	var steps []phaseStep
	var known []int
	for i, g := range groups {
		writeBulkFile(work, i, g)
		known = append(known, i)
		steps = append(steps, phaseStep{Op: "bulk", Bulk: i})
		if i < len(groups)-1 || r.Bool() {
			steps = append(steps, phaseStep{Op: "seal"})
		}
	}
	opt := phaseOpt{}
	cfg := fmt.Sprintf("docs=%d fractions=%d", len(corp.Docs), len(groups))
	run := func(name, dir string, spec phaseSpec) (h.PhaseResult, []phaseEvent, []hookEvent) {
		spec.Dir, spec.Work, spec.Opt = dir, work, opt
		spec.Out = filepath.Join(work, name+".out")
		spec.Events = filepath.Join(work, name+".events")
		os.Remove(spec.Out)
		os.Remove(spec.Events)
		sp := filepath.Join(work, name+".spec")
		writeSpec(sp, spec)
		res := h.SpawnPhase(work, "store", 2*time.Minute, nil, sp)
		return res, readPhaseOut(spec.Out), readEvents(spec.Events)
	}
	res, _, _ := run("build", pristine, phaseSpec{Steps: steps})
	if res.ExitCode != 0 {
		if w.Begin(map[string]any{"step": "build", "config": cfg}) {
			w.Violation("C19:build-failed", map[string]any{"exit": res.ExitCode, "stderr": res.Stderr})
		}
		return
	}
	getDigest := func(evs []phaseEvent, ev string) (searchDigest, bool) {
		for _, e := range evs {
			if e.Ev == ev {
				var d searchDigest
				json.Unmarshal([]byte(e.Arg), &d)
				return d, true
			}
		}
		return searchDigest{}, false
	}
	nReq := 3
	if !w.Quick() {
		nReq = 6
	}
	scratch := filepath.Join(work, "case")
	for qi := 0; qi < nReq; qi++ {
		qr := r.Fork()
		ar, q := c19Request(qr, corp, fmt.Sprintf("req-%d-%d", batch, qi))
		if qi == nReq-1 {
			// a phrase on a text field (two words = a conjunction under the mapping; one unknown token without it)
			q = &model.Q{Op: "and", Kids: []*model.Q{{Op: "lit", Field: "t1", Pat: "phrasea"}, {Op: "lit", Field: "t1", Pat: "phraseb"}}}
			ar.Query = `t1:"PhraseA phraseb"`
		}
		arg, _ := json.Marshal(ar)
		exp := model.Search(corp.Docs, model.Req{Q: q, From: ar.From, To: ar.To, Asc: ar.Asc, Limit: 1 << 30})
		judge := func(evs []phaseEvent) (string, bool) {
			ad, ok1 := getDigest(evs, "async-result")
			sd, ok2 := getDigest(evs, "sync-result")
			if !ok1 || !ok2 {
				return "", false
			}
			if ad.Err != "" {
				if strings.Contains(ad.Err, "search not found") {
					return "", false
				}
				return "asynchronous search failed: " + ad.Err, true
			}
			if s := cmpDigest(ad, sd); s != "" {
				return "asynchronous result differs from the synchronous search: " + s, true
			}
			if !idsEqual(ad.IDs, exp.IDs) {
				return fmt.Sprintf("asynchronous IDs differ from the model: %d vs %d", len(ad.IDs), len(exp.IDs)), true
			}
			return "", true
		}
		// dry run
		copyDir(pristine, scratch)
		res, evs, _ := run("dry", scratch, phaseSpec{Steps: []phaseStep{{Op: "async_start", Arg: string(arg)}, {Op: "async_wait", Arg: string(arg)}, {Op: "sync_search", Arg: string(arg)}}, LogPoints: true})
		hits := map[string]int64{}
		for _, e := range evs {
			if e.Ev == "done" {
				hits = e.Counts
			}
		}
		desc := map[string]any{"config": cfg, "request": ar, "surface": "store", "restart": "none"}
		if w.Begin(desc) {
			bad, ok := judge(evs)
			switch {
			case !ok:
				w.Violation("C19:no-result:"+h.CrashFrame(res.Stderr), map[string]any{"case": desc, "exit": res.ExitCode, "stderr": res.Stderr})
			case bad != "":
				w.Violation("C19:wrong-result:store", map[string]any{"diff": bad, "case": desc})
			default:
				w.Held(fmt.Sprintf("store|dry|f%d|%d|a%d", len(groups), min(len(exp.IDs), 2), len(ar.Aggs)), len(exp.IDs) > 0)
			}
		}
		// the same clean search under strace: every persisted file (request info, partial results) is published by rename only
		// after its content was fsynced (syscall level, independent of the hooks)
		if qi == 0 {
			sdesc := map[string]any{"config": cfg, "request": ar, "surface": "store", "restart": "none (strace)"}
			if w.Begin(sdesc) {
				copyDir(pristine, scratch)
				spec := phaseSpec{Steps: []phaseStep{{Op: "async_start", Arg: string(arg)}, {Op: "async_wait", Arg: string(arg)}}, Dir: scratch, Work: work, Opt: opt,
					Out: filepath.Join(work, "strace.out"), Events: filepath.Join(work, "strace.events")}
				os.Remove(spec.Out)
				os.Remove(spec.Events)
				sp := filepath.Join(work, "strace.spec")
				writeSpec(sp, spec)
				trace := filepath.Join(work, "strace.trace")
				os.Remove(trace)
				sres := h.SpawnPhaseWrapped(work, []string{"strace", "-f", "-o", trace, "-e", straceDurabilityTrace}, "store", 3*time.Minute, nil, sp)
				rd := checkRenameDurability(trace,
					func(dst string) bool { return strings.HasSuffix(dst, ".info") || strings.HasSuffix(dst, ".qpr") },
					func(string) []string { return nil })
				w.Count("strace_publications_checked", int64(rd.Renames))
				switch {
				case rd.Violation != "":
					w.Violation("C19:syscall-order", map[string]any{"diff": rd.Violation, "case": sdesc})
				case sres.TimedOut || sres.ExitCode != 0 || rd.Renames == 0 || !rd.Recognised:
					w.Inconclusive(fmt.Sprintf("strace monitor: exit=%d renames=%d writes recognised=%v", sres.ExitCode, rd.Renames, rd.Recognised))
				default:
					w.Held(fmt.Sprintf("store|strace|%d", min(rd.Renames, 8)), true)
				}
			}
		}
		type inj struct {
			point string
			k     int64
		}
		var plan []inj
		for _, p := range []string{"async.file.durable", "async.file.renamed", "async.file.synced"} {
			for k := int64(1); k <= hits[p]; k++ {
				plan = append(plan, inj{p, k})
			}
		}
		plan = append(plan, inj{"async.before_done", 1}, inj{"async.done", 1})
		// ---- fractions created after the start are not part of the search: the worker is frozen after k persisted writes, the
		// store seals everything, ingests bulk A (lands in the active fraction that may have existed at the start: tolerated in
		// the result), seals, ingests bulk B (lands in a fraction that certainly did not exist at the start), crashes; after the
		// restart the resumed search must not contain any document of bulk B and must contain every expected one.
		lateA := gen.MakeCorpus(qr, gen.CorpusOpt{N: qr.Range(1, 6), Vocab: 3, MIDSpread: max(int(corp.MaxMID-corp.MinMID), 1), BaseMID: corp.MinMID, MaxToks: 1, Agg: true, Groups: 3, Tag: fmt.Sprintf("la%d-%d", batch, qi)})
		lateB := gen.MakeCorpus(qr, gen.CorpusOpt{N: qr.Range(5, 40), Vocab: 3, MIDSpread: max(int(corp.MaxMID-corp.MinMID), 1), BaseMID: corp.MinMID, MaxToks: 1, Agg: true, Groups: 3, Tag: fmt.Sprintf("lb%d-%d", batch, qi)})
		// IDs are unique over everything ingested (the generator has a few fixed edge IDs that every corpus may contain)
		taken := map[model.ID]bool{}
		for _, d := range corp.Docs {
			taken[d.ID] = true
		}
		fresh := func(docs []*model.Doc) []*model.Doc {
			var out []*model.Doc
			for _, d := range docs {
				if !taken[d.ID] {
					taken[d.ID] = true
					out = append(out, d)
				}
			}
			return out
		}
		lateA.Docs, lateB.Docs = fresh(lateA.Docs), fresh(lateB.Docs)
		if len(lateA.Docs) == 0 || len(lateB.Docs) == 0 {
			continue
		}
		writeBulkFile(work, 1000, lateA.Docs)
		writeBulkFile(work, 1001, lateB.Docs)
		inA, inB := map[model.ID]bool{}, map[model.ID]bool{}
		for _, d := range lateA.Docs {
			inA[d.ID] = true
		}
		for _, d := range lateB.Docs {
			inB[d.ID] = true
		}
		for k := int64(2); k <= hits["async.file.durable"]; k++ {
			if w.Quick() && k > 2 && k < hits["async.file.durable"] && !qr.Chance(1, 2) {
				continue
			}
			desc := map[string]any{"config": cfg, "request": ar, "surface": "store", "restart": fmt.Sprintf("worker frozen at async.file.durable#%d of %d, seal, bulk A, seal, bulk B, crash", k, hits["async.file.durable"])}
			if !w.Begin(desc) {
				continue
			}
			copyDir(pristine, scratch)
			res1, evs1, _ := run("hold", scratch, phaseSpec{Steps: []phaseStep{{Op: "seal"}, {Op: "sync_search", Arg: string(arg)}, {Op: "async_start", Arg: string(arg)}, {Op: "wait_hold"},
				{Op: "seal"}, {Op: "bulk", Bulk: 1000}, {Op: "seal"}, {Op: "bulk", Bulk: 1001}, {Op: "crash"}}, HoldPoint: "async.file.durable", HoldAt: k})
			held, ackB := false, false
			for _, e := range evs1 {
				if e.Ev == "held" {
					held = true
				}
				if e.Ev == "ack" && e.Bulk == 1001 {
					ackB = true
				}
			}
			sd, okS := getDigest(evs1, "sync-result")
			res2, evs2, _ := run("resume", scratch, phaseSpec{Steps: []phaseStep{{Op: "async_wait", Arg: string(arg)}}})
			w.Count("restarts_injected", 1)
			ad, okA := getDigest(evs2, "async-result")
			switch {
			case !held || !ackB || res1.ExitCode != 77 || !okS:
				w.Inconclusive(fmt.Sprintf("scenario not established: held=%v ackB=%v exit=%d", held, ackB, res1.ExitCode))
			case !okA || ad.Err != "":
				w.Violation("C19:not-resumed:"+h.CrashFrame(res2.Stderr), map[string]any{"diff": "the acknowledged asynchronous search did not finish after the restart: " + ad.Err, "case": desc, "exit": res2.ExitCode, "stderr": res2.Stderr[:min(len(res2.Stderr), 1500)]})
			default:
				bad := ""
				got := map[model.ID]bool{}
				extraA := 0
				for _, id := range ad.IDs {
					got[id] = true
					switch {
					case inB[id]:
						bad = fmt.Sprintf("the result contains %s, a document of a fraction created after the search was started", id)
					case inA[id]:
						extraA++
					}
				}
				for _, id := range exp.IDs {
					if bad == "" && !got[id] {
						bad = fmt.Sprintf("the result misses %s, which a synchronous search at the start returned", id)
					}
				}
				if bad == "" && len(ad.IDs) != len(exp.IDs)+extraA {
					bad = fmt.Sprintf("the result has %d ids, expected %d (+%d tolerated)", len(ad.IDs), len(exp.IDs), extraA)
				}
				if bad == "" && extraA == 0 {
					if s := cmpDigest(ad, sd); s != "" {
						bad = "differs from the synchronous search taken right before the start: " + s
					}
				}
				if bad != "" {
					w.Violation("C19:wrong-result:late-fraction", map[string]any{"diff": bad, "case": desc})
				} else {
					w.Count("late_fraction_scenarios", 1)
					w.Held(fmt.Sprintf("store|late|k%d|f%d|a%d|h%v", k, len(groups), len(ar.Aggs), ar.Interval > 0), len(exp.IDs) > 0)
				}
			}
		}
		for _, in := range plan {
			desc := map[string]any{"config": cfg, "request": ar, "surface": "store", "restart": fmt.Sprintf("crash at %s#%d of %d", in.point, in.k, hits[in.point])}
			if !w.Begin(desc) {
				continue
			}
			copyDir(pristine, scratch)
			res1, evs1, hev := run("crash", scratch, phaseSpec{Steps: []phaseStep{{Op: "async_start", Arg: string(arg)}, {Op: "async_wait", Arg: string(arg)}}, CrashPoint: in.point, CrashAt: in.k})
			reached := res1.ExitCode == 77
			started := false
			for _, e := range evs1 {
				if e.Ev == "async-started" {
					started = true
				}
			}
			_ = hev
			res2, evs2, _ := run("resume", scratch, phaseSpec{Steps: []phaseStep{{Op: "async_wait", Arg: string(arg)}, {Op: "sync_search", Arg: string(arg)}}})
			w.Count("restarts_injected", 1)
			bad, ok := judge(evs2)
			switch {
			case !ok && !started:
				w.Count("request_lost_before_ack(legal)", 1)
				w.Held("store|lost-before-ack", false)
			case !ok:
				w.Violation("C19:not-resumed:"+h.CrashFrame(res2.Stderr), map[string]any{"diff": "the acknowledged asynchronous search did not finish after the restart", "case": desc, "exit": res2.ExitCode, "stderr": res2.Stderr[:min(len(res2.Stderr), 1500)]})
			case bad != "":
				w.Violation("C19:wrong-result:after-restart", map[string]any{"diff": bad, "case": desc})
			default:
				if reached {
					w.Count("crash_points_reached", 1)
				}
				if reached && len(exp.IDs) > 0 && w.WantSample() {
					w.Sample(desc)
				}
				w.Held(fmt.Sprintf("store|%s#%d|f%d|a%d|h%v", in.point, in.k, len(groups), len(ar.Aggs), ar.Interval > 0), reached && len(exp.IDs) > 0)
			}
		}
	}
}

func seqproxyAggFunc(fn string) seqproxyapi.AggFunc {
	switch fn {
	case "count":
		return seqproxyapi.AggFunc_AGG_FUNC_COUNT
	case "unique":
		return seqproxyapi.AggFunc_AGG_FUNC_UNIQUE
	case "sum":
		return seqproxyapi.AggFunc_AGG_FUNC_SUM
	case "min":
		return seqproxyapi.AggFunc_AGG_FUNC_MIN
	case "max":
		return seqproxyapi.AggFunc_AGG_FUNC_MAX
	case "avg":
		return seqproxyapi.AggFunc_AGG_FUNC_AVG
	}
	return seqproxyapi.AggFunc_AGG_FUNC_QUANTILE
}

// c19Proxy: proxy library and proxy public handlers.
func c19Proxy(w *h.W, batch int) {
	r := w.Rng()
	nCorp := 3
	for ci := 0; ci < nCorp; ci++ {
		cr := r.Fork()
		corp := c19Corpus(cr, fmt.Sprintf("b%dc%d", batch, ci))
		shards := cr.Range(1, 3)
		replicas := cr.Range(1, 2)
		cl, err := sdb.OpenCluster(w.Sub(fmt.Sprintf("c%d", ci)), shards, replicas, sdb.Opt{Mapping: StoreMapping()})
		if err != nil {
			if w.Begin(map[string]any{"step": "open"}) {
				w.Violation("C19:store-did-not-start", map[string]any{"error": err.Error()})
			}
			continue
		}
		cl.SeqQL = true
		parts := make([][]*model.Doc, shards)
		for _, d := range corp.Docs {
			s := cr.Intn(shards)
			parts[s] = append(parts[s], d)
		}
		for s := range parts {
			gs := splitDocs(cr, parts[s], cr.Range(1, 3), "random")
			for rep := 0; rep < replicas; rep++ {
				loadFractions(cl.Stores[s][rep], cr, gs)
			}
		}
		mp, _ := mappingprovider.New("", mappingprovider.WithMapping(StoreMapping()))
		srv := proxyapi.NewGrpcV1ForVerif(proxyapi.APIConfig{SearchTimeout: time.Minute, ExportTimeout: time.Minute}, cl.Ing, mp)
		for qi := 0; qi < 12; qi++ {
			qr := cr.Fork()
			ar, q := c19Request(qr, corp, "")
			exp := model.Search(corp.Docs, model.Req{Q: q, From: ar.From, To: ar.To, Asc: ar.Asc, Limit: 1 << 30})
			surface := h.Pick(qr, []string{"proxy-library", "proxy-handler"})
			size := h.Pick(qr, []int{0, 3, len(corp.Docs) + 5})
			// with two replicas: the first replica of a seeded set of shards is unreachable while the search is started, so the
			// search lives on the second one; fetching must find it there
			var downAtStart []string
			if replicas > 1 {
				for s := 0; s < shards; s++ {
					if qr.Bool() {
						downAtStart = append(downAtStart, fmt.Sprintf("store-%d-0", s))
					}
				}
			}
			desc := map[string]any{"request": ar, "surface": surface, "shards": shards, "replicas": replicas, "down_at_start": downAtStart, "size": size}
			if !w.Begin(desc) {
				continue
			}
			for _, hst := range downAtStart {
				cl.Down[hst].Store(true)
			}
			upAgain := func() {
				for _, hst := range downAtStart {
					cl.Down[hst].Store(false)
				}
			}
			ord := seq.DocsOrderDesc
			if ar.Asc {
				ord = seq.DocsOrderAsc
			}
			var paggs []search.AggQuery
			for _, a := range ar.Aggs {
				paggs = append(paggs, aggToProxy(a))
			}
			bad := ""
			ctx := context.Background()
			if surface == "proxy-library" {
				var resp search.AsyncResponse
				var fr search.FetchAsyncSearchResultResponse
				pn := h.Guard(func() {
					resp, err = cl.Ing.StartAsyncSearch(ctx, search.AsyncRequest{Query: ar.Query, From: time.UnixMilli(int64(ar.From)), To: time.UnixMilli(int64(min(ar.To, 1<<50))), Order: ord, Aggregations: paggs, HistogramInterval: seq.MID(ar.Interval)})
					upAgain()
					if err != nil {
						return
					}
					for polls := 0; polls < 3000; polls++ {
						fr, err = cl.Ing.FetchAsyncSearchResult(ctx, search.FetchAsyncSearchResultRequest{ID: resp.ID, WithDocs: false, Size: size})
						if err != nil || fr.Done {
							return
						}
						time.Sleep(2 * time.Millisecond)
					}
					err = fmt.Errorf("not done after 3000 polls")
				})
				switch {
				case pn != "":
					bad = "panicked: " + strings.SplitN(pn, "\n", 2)[0]
				case err != nil:
					bad = "failed: " + err.Error()
				default:
					to := min(ar.To, 1<<50)
					sres, serr := cl.Search(sdb.ProxyReq{Query: ar.Query, From: ar.From, To: to, Size: size, Asc: ar.Asc, Interval: ar.Interval, Aggs: paggs})
					if serr != nil {
						bad = "synchronous proxy search failed: " + serr.Error()
						break
					}
					var got []model.ID
					for _, id := range fr.QPR.IDs {
						got = append(got, model.ID{MID: uint64(id.ID.MID), RID: uint64(id.ID.RID)})
					}
					wantIDs := exp.IDs
					if len(wantIDs) > size {
						wantIDs = wantIDs[:size]
					}
					if !idsEqual(got, sres.IDs) || !idsEqual(got, wantIDs) {
						bad = fmt.Sprintf("ids differ: async [%s] sync [%s] model [%s]", fmtIDs(got, 6), fmtIDs(sres.IDs, 6), fmtIDs(wantIDs, 6))
					} else if ar.Interval > 0 && !histEqual(histFromQPR(&fr.QPR), histFromQPR(sres.QPR)) {
						bad = fmt.Sprintf("histogram differs: async %v sync %v", fr.QPR.Histogram, sres.QPR.Histogram)
					}
					for i := 0; bad == "" && i < len(ar.Aggs); i++ {
						ea := model.Aggregate(exp.Docs, ar.Aggs[i])
						if i >= len(fr.QPR.Aggs) {
							bad = "aggregation missing in the asynchronous result"
							break
						}
						if s := compareSamples(ea, ar.Aggs[i], fr.QPR.Aggs[i].SamplesByBin, fr.QPR.Aggs[i].NotExists); s != "" {
							bad = fmt.Sprintf("aggregation %d differs from the values computed from the documents: %s", i, s)
						}
					}
				}
			} else {
				mkQuery := func() *seqproxyapi.SearchQuery {
					return &seqproxyapi.SearchQuery{Query: ar.Query, From: timestamppb.New(time.UnixMilli(int64(ar.From))), To: timestamppb.New(time.UnixMilli(int64(min(ar.To, 1<<50))))}
				}
				var pbAggs []*seqproxyapi.AggQuery
				for _, a := range ar.Aggs {
					pa := &seqproxyapi.AggQuery{Field: a.Field, GroupBy: a.GroupBy, Func: seqproxyAggFunc(a.Func), Quantiles: a.Quantiles}
					if a.Interval > 0 {
						s := fmt.Sprintf("%dms", a.Interval)
						pa.Interval = &s
					}
					pbAggs = append(pbAggs, pa)
				}
				var hist *seqproxyapi.HistQuery
				if ar.Interval > 0 {
					hist = &seqproxyapi.HistQuery{Interval: fmt.Sprintf("%dms", ar.Interval)}
				}
				pord := seqproxyapi.Order_ORDER_DESC
				if ar.Asc {
					pord = seqproxyapi.Order_ORDER_ASC
				}
				var fr *seqproxyapi.FetchAsyncSearchResultResponse
				var cs *seqproxyapi.ComplexSearchResponse
				pn := h.Guard(func() {
					var st *seqproxyapi.StartAsyncSearchResponse
					st, err = srv.StartAsyncSearch(ctx, &seqproxyapi.StartAsyncSearchRequest{Query: mkQuery(), Aggs: pbAggs, Hist: hist, Order: pord})
					upAgain()
					if err != nil {
						return
					}
					for polls := 0; polls < 3000; polls++ {
						fr, err = srv.FetchAsyncSearchResult(ctx, &seqproxyapi.FetchAsyncSearchResultRequest{SearchId: st.SearchId, Size: int32(size)})
						if err != nil || fr.Done {
							break
						}
						time.Sleep(2 * time.Millisecond)
					}
					if err == nil && size > 0 {
						cs, err = srv.ComplexSearch(ctx, &seqproxyapi.ComplexSearchRequest{Query: mkQuery(), Aggs: pbAggs, Hist: hist, Size: int64(size), Order: pord})
					}
				})
				switch {
				case pn != "":
					// the gRPC server's recovery interceptor turns this into an Internal error for the client
					bad = "fetching the result panicked (an error for the client): " + strings.SplitN(pn, "\n", 2)[0]
				case err != nil:
					bad = "failed: " + err.Error()
				case fr == nil || !fr.Done:
					bad = "not done after 3000 polls"
				default:
					wantIDs := exp.IDs
					if len(wantIDs) > size {
						wantIDs = wantIDs[:size]
					}
					var got []string
					for _, d := range fr.Response.Docs {
						got = append(got, d.Id)
					}
					var want []string
					for _, id := range wantIDs {
						want = append(want, sdb.IDString(id))
					}
					if strings.Join(got, ",") != strings.Join(want, ",") {
						bad = fmt.Sprintf("ids differ: async handler %d ids, model %d ids", len(got), len(want))
					}
					if bad == "" && cs != nil {
						var sync []string
						for _, d := range cs.Docs {
							sync = append(sync, d.Id)
						}
						if strings.Join(got, ",") != strings.Join(sync, ",") {
							bad = "ids differ between FetchAsyncSearchResult and ComplexSearch"
						}
						if bad == "" && ar.Interval > 0 {
							ha, hs := map[int64]uint64{}, map[int64]uint64{}
							if fr.Response.Hist != nil {
								for _, b := range fr.Response.Hist.Buckets {
									if b.DocCount > 0 {
										ha[b.Ts.AsTime().UnixMilli()] = b.DocCount
									}
								}
							}
							if cs.Hist != nil {
								for _, b := range cs.Hist.Buckets {
									if b.DocCount > 0 {
										hs[b.Ts.AsTime().UnixMilli()] = b.DocCount
									}
								}
							}
							if fmt.Sprint(sortedHist(ha)) != fmt.Sprint(sortedHist(hs)) {
								bad = fmt.Sprintf("histogram differs: async %v sync %v", sortedHist(ha), sortedHist(hs))
							}
						}
						for i := 0; bad == "" && i < len(ar.Aggs); i++ {
							if ar.Aggs[i].Interval > 0 {
								continue
							}
							if i >= len(fr.Response.Aggs) || i >= len(cs.Aggs) {
								bad = "aggregation missing"
								break
							}
							if s := cmpBuckets(fr.Response.Aggs[i], cs.Aggs[i]); s != "" {
								bad = fmt.Sprintf("aggregation %d differs between the asynchronous and the synchronous handler: %s", i, s)
							}
						}
					}
				}
			}
			w.Count("proxy_async_searches", 1)
			if bad != "" {
				w.Violation("C19:"+surface+":"+errSig(strings.SplitN(bad, ":", 2)[0]), map[string]any{"diff": bad, "case": desc})
				continue
			}
			nt := len(exp.IDs) > 0
			if nt && w.WantSample() {
				w.Sample(desc)
			}
			w.Held(fmt.Sprintf("%s|s%d|size%d|a%d|h%v", surface, shards, min(size, 4), len(ar.Aggs), ar.Interval > 0), nt)
		}
		cl.Stop()
	}
}

func sortedHist(m map[int64]uint64) [][2]int64 {
	var out [][2]int64
	for k, v := range m {
		out = append(out, [2]int64{k, int64(v)})
	}
	sort.Slice(out, func(i, j int) bool { return out[i][0] < out[j][0] })
	return out
}

func cmpBuckets(a, b *seqproxyapi.Aggregation) string {
	if a.NotExists != b.NotExists {
		return fmt.Sprintf("not_exists %d vs %d", a.NotExists, b.NotExists)
	}
	key := func(x *seqproxyapi.Aggregation_Bucket) string { return x.Key }
	ma, mb := map[string]*seqproxyapi.Aggregation_Bucket{}, map[string]*seqproxyapi.Aggregation_Bucket{}
	for _, x := range a.Buckets {
		ma[key(x)] = x
	}
	for _, x := range b.Buckets {
		mb[key(x)] = x
	}
	if len(ma) != len(mb) {
		return fmt.Sprintf("%d buckets vs %d", len(ma), len(mb))
	}
	for k, x := range ma {
		y := mb[k]
		if y == nil {
			return fmt.Sprintf("bucket %q missing", k)
		}
		if !model.Close(x.Value, y.Value, math.Abs(x.Value)+math.Abs(y.Value)) || x.NotExists != y.NotExists || len(x.Quantiles) != len(y.Quantiles) {
			return fmt.Sprintf("bucket %q: value %v/%v not_exists %d/%d", k, x.Value, y.Value, x.NotExists, y.NotExists)
		}
		for i := range x.Quantiles {
			if !model.Close(x.Quantiles[i], y.Quantiles[i], 0) {
				return fmt.Sprintf("bucket %q quantile %d: %v vs %v", k, i, x.Quantiles[i], y.Quantiles[i])
			}
		}
	}
	return ""
}
