package props

import (
	"fmt"
	"strings"
	"time"

	"verif/internal/gen"
	"verif/internal/h"
	"verif/internal/model"
	"verif/internal/sdb"
)

// C02 — search returns exactly the matching documents, ordered, limited, counted.
// Differential: real GrpcV1.Search (parser, NOT propagation, eval tree, merge nodes, LID borders, limit/total loop)
// against the naive model, on seeded corpora x query trees x ranges x orders x limits, both query languages.

func init() {
	h.Register(&h.Prop{
		ID:    "C02",
		Level: "exploration",
		Rule: "case = (seeded corpus, fraction form, query tree, [from,to], order, limit, with_total, query language); " +
			"non-trivial = the model's match set is non-empty and smaller than the corpus; " +
			"distinct = distinct (tree shape, range class, limit class, order, form, language) among non-trivial cases",
		Assumptions: []string{
			"reference model in /verif/internal/model (naive scan + sort) is the specification of 'matches'",
			"tokens are supplied explicitly (frac.DocProvider), so tokenizer questions are out of scope here (C10/C11)",
			"from/to < 2^62; documents carry single IDs (no nested metas)",
		},
		Batches: tiered(480, 9600),
		Run:     runC02,
		Timeout: timeoutFor(3*time.Minute, 40*time.Minute),
	})
}

type diffStats struct {
	w *h.W
}

// compareSearch runs one request on the store and compares with the model. Returns "" if held, otherwise a violation class + detail.
func compareSearch(st *sdb.Store, docs []*model.Doc, q *model.Q, sc *searchCase, r *h.Rng) (class string, detail map[string]any, exp model.Res) {
	exp = model.Search(docs, model.Req{Q: q, From: sc.From, To: sc.To, Asc: sc.Asc, Limit: sc.Limit + sc.Offset, WithTotal: sc.WithTotal, Interval: sc.Interval})
	res, err := st.Search(sdb.SearchReq{Query: sc.Query, SeqQL: sc.Lang == "seqql", From: sc.From, To: sc.To, Size: sc.Limit, Offset: sc.Offset,
		Asc: sc.Asc, WithTotal: sc.WithTotal, Interval: sc.Interval})
	if err != nil {
		return "error-returned:" + errSig(err.Error()), map[string]any{"error": err.Error(), "expected_ids": fmtIDs(exp.IDs, 20)}, exp
	}
	if res.Code != 0 {
		return "error-code", map[string]any{"code": res.Code.String()}, exp
	}
	if !strictlyOrdered(res.IDs, sc.Asc) {
		return "not-strictly-ordered", map[string]any{"got": fmtIDs(res.IDs, 40)}, exp
	}
	if !idsEqual(res.IDs, exp.IDs) {
		return "wrong-ids", map[string]any{"got": fmtIDs(res.IDs, 40), "expected": fmtIDs(exp.IDs, 40), "got_n": len(res.IDs), "expected_n": len(exp.IDs)}, exp
	}
	if sc.WithTotal && res.Total != exp.Total {
		return "wrong-total", map[string]any{"got": res.Total, "expected": exp.Total}, exp
	}
	if sc.Interval > 0 && !histEqual(res.Hist, exp.Hist) {
		return "wrong-histogram", map[string]any{"got": res.Hist, "expected": exp.Hist}, exp
	}
	return "", nil, exp
}

func runC02(w *h.W, batch int) {
	r := w.Rng()
	nCorp := 5
	perCorp := 50
	for ci := 0; ci < nCorp; ci++ {
		cr := r.Fork()
		opt := gen.CorpusOpt{
			N:         cr.LogInt(20, 600),
			Vocab:     cr.Range(3, 12),
			MIDSpread: cr.LogInt(3, 400),
			SmallRID:  cr.Chance(1, 4),
			MaxToks:   cr.Range(1, 3),
			Tag:       fmt.Sprintf("b%dc%d", batch, ci),
		}
		if !w.Quick() && cr.Chance(1, 10) {
			opt.N = cr.Range(3000, 9000)
		}
		corp := gen.MakeCorpus(cr, opt)
		form := []string{"active", "sealed", "two-fracs", "active-interleaved", "sealed-interleaved", "many-fracs"}[cr.Intn(6)]
		if batch%16 == 5 && ci == 0 {
			// posting lists that span several LID blocks (> 64Ki postings of one token, lists ending at / continued over a block
			// edge): range borders then fall into the first, a middle or the last block of a list
			sh := gen.MakeShape(cr, h.Pick(cr, []string{"hot-token", "lid-fill", "long-posting-tail"}), cr.Intn(4), fmt.Sprintf("b%dshape", batch))
			corp = sh.Corpus
			opt.N = len(corp.Docs)
			form = h.Pick(cr, []string{"sealed", "two-fracs"})
		}
		recent := ""
		if batch%8 == 3 && ci < 2 && len(corp.Docs) > 0 {
			// documents minutes to hours older than their fraction: the sealed forms then prune by the occupancy map
			recent = moveToRecentPast(cr, corp)
			form = h.Pick(cr, []string{"sealed", "two-fracs", "many-fracs", "sealed-interleaved"})
		}
		dir := w.Sub(fmt.Sprintf("c%d", ci))
		sopt := sdb.Opt{Mapping: StoreMapping()}
		if form == "many-fracs" {
			// the limit cut across fractions searched in several iterations (early termination between iterations)
			sopt.FracsPerIter = cr.Range(1, 2)
		}
		st, err := sdb.Open(dir, sopt)
		if err != nil {
			if w.Begin(map[string]any{"corpus": opt, "step": "open"}) {
				w.Violation("C02:store-did-not-start", map[string]any{"error": err.Error()})
			}
			continue
		}
		docs := shuffled(cr, corp.Docs)
		var ierr error
		switch form {
		case "active":
			ierr = ingest(st, docs, cr, cr.Range(1, 6))
		case "sealed":
			ierr = ingest(st, docs, cr, cr.Range(1, 6))
			st.SealAll()
		case "active-interleaved", "sealed-interleaved":
			// searches between the bulks: posting lists are merged lazily by readers, so the state a later bulk is merged into
			// depends on what was searched before (every search touches _all_); each interleaved search is judged as a case of its own
			nb := cr.Range(2, 8)
			step := max(1, len(docs)/nb)
			for lo := 0; lo < len(docs) && ierr == nil; lo += step {
				hi := min(len(docs), lo+step)
				if ierr = st.Bulk(docs[lo:hi]); ierr != nil {
					break
				}
				st.WaitIdle()
				sofar := docs[:hi]
				for k := 0; k < 3; k++ {
					qr := cr.Fork()
					q := corp.Query(qr, gen.QueryOpt{MaxDepth: qr.Range(0, 2)})
					from, to, _ := corp.TimeRange(qr)
					matches := int(model.Search(sofar, model.Req{Q: q, From: from, To: to}).Total)
					limit, _ := gen.LimitFor(qr, matches)
					sc := &searchCase{Query: q.Legacy(qr), Lang: "legacy", From: from, To: to, Asc: qr.Bool(), Limit: limit, WithTotal: qr.Bool(), Form: form + "/between-bulks", Corpus: fmt.Sprintf("%d of %d docs ingested", hi, len(docs))}
					if !w.Begin(sc) {
						continue
					}
					class, detail, _ := compareSearch(st, sofar, q, sc, qr)
					w.Count("searches_between_bulks", 1)
					if class != "" {
						detail["case"] = sc
						w.Violation("C02:"+class+":between-bulks", detail)
						continue
					}
					w.Held(q.Shape()+"|between-bulks|"+form, matches > 0 && matches < hi)
				}
			}
			if form == "sealed-interleaved" && ierr == nil {
				st.SealAll()
			}
		case "many-fracs":
			form += fmt.Sprintf("/fpi%d", sopt.FracsPerIter)
			var forms string
			forms, ierr = loadFractions(st, cr, splitDocs(cr, docs, cr.Range(3, 6), h.Pick(cr, layoutRules)))
			form += "/" + forms
		case "two-fracs":
			half := len(docs) / 2
			ierr = ingest(st, docs[:half], cr, cr.Range(1, 3))
			st.SealAll()
			if ierr == nil {
				ierr = ingest(st, docs[half:], cr, cr.Range(1, 3))
			}
		}
		if ierr != nil {
			if w.Begin(map[string]any{"corpus": opt, "step": "ingest"}) {
				w.Violation("C02:bulk-error", map[string]any{"error": ierr.Error()})
			}
			st.Stop()
			continue
		}
		corpusDesc := fmt.Sprintf("N=%d vocab=%d midspread=%d smallrid=%v form=%s", opt.N, opt.Vocab, opt.MIDSpread, opt.SmallRID, form) + recent
		for qi := 0; qi < perCorp; qi++ {
			qr := cr.Fork()
			q := corp.Query(qr, gen.QueryOpt{MaxDepth: qr.Range(0, 5)})
			from, to, _ := corp.TimeRange(qr)
			asc := qr.Bool()
			lang := "legacy"
			var text string
			if qr.Bool() {
				lang = "seqql"
				text = q.SeqQL(qr)
			} else {
				text = q.Legacy(qr)
			}
			k := int(model.Search(corp.Docs, model.Req{Q: q, From: from, To: to, Limit: 0}).Total)
			limit, lclass := gen.LimitFor(qr, k)
			sc := &searchCase{Query: text, Lang: lang, From: from, To: to, Asc: asc, Limit: limit, WithTotal: qr.Bool(), Form: form, Corpus: corpusDesc}
			if qr.Chance(1, 5) {
				sc.Interval = uint64(h.Pick(qr, []int{1, 2, 7, 50, 1000, 60000}))
			}
			if !w.Begin(sc) {
				continue
			}
			class, detail, exp := compareSearch(st, corp.Docs, q, sc, qr)
			w.Count("searches", 1)
			w.Count("ids_compared", int64(len(exp.IDs)))
			if class != "" {
				detail["case"] = sc
				detail["tree"] = q.Shape()
				w.Violation("C02:"+class+":"+rangeClassOf(corp, from, to), detail)
				continue
			}
			nontrivial := k > 0 && k < len(corp.Docs)
			if nontrivial && w.WantSample() {
				w.Sample(map[string]any{"case": sc, "matches": k, "returned_ids": fmtIDs(exp.IDs, 5)})
			}
			ord := "desc"
			if asc {
				ord = "asc"
			}
			w.Held(q.Shape()+"|"+rangeClassOf(corp, from, to)+"|"+lclass+"|"+ord+"|"+strings.SplitN(form, "/", 2)[0]+"|"+lang, nontrivial)
		}
		st.Stop()
	}
}
