package props

import (
	"context"
	"fmt"
	"sort"
	"strings"
	"time"

	"github.com/ozontech/seq-db/frac/token"
	"github.com/ozontech/seq-db/parser"
	"github.com/ozontech/seq-db/pattern"

	"verif/internal/gen"
	"verif/internal/h"
	"verif/internal/model"
	"verif/internal/sdb"
)

// C13 — token matching equals glob/range semantics, with or without dictionary narrowing.

func init() {
	h.Register(&h.Prop{
		ID:    "C13",
		Level: "exploration",
		Rule: "exhaustive small scope: (a) every pattern over {a,b,*} (no adjacent wildcards) x every token over {a,b} up to the length bound through pattern.Search on an unordered provider and on an ordered single-block provider vs a DP glob matcher; " +
			"(b) every range (all end pairs of a value set, open/closed/unbounded) x every token of the set vs the numeric-if-all-given-ends-numeric rule; " +
			"(c) every sorted dictionary up to the size bound x every split into consecutive blocks -> real token.Table.SelectEntries(field, hint) -> ordered provider over the selected entries -> pattern.Search must equal the scan of all tokens; " +
			"(d) seeded long strings and large dictionaries; (e) live: one real store per batch, one document per token of a seeded dictionary (every other batch large enough for several dictionary blocks), every pattern/range as a search on the field on the active, the sealed and the reloaded fraction (block-loading provider, token table read back from the index file) vs the DP matcher over the documents. case = one pattern/range (a,b) or one dictionary with all its splits and patterns (c); non-trivial = matches some but not all tokens; distinct = case identity",
		Assumptions: []string{"the ordered provider used in (c) serves tokens straight from the dictionary; the block-loading provider of sealed fractions is exercised by part (e) and by C03 (multi-block dictionaries)"},
		Batches:     tiered(128, 1024),
		Run:         runC13,
		Exhaustive:  func(string) bool { return true },
		Timeout:     timeoutFor(3*time.Minute, 45*time.Minute),
	})
}

type sliceProvider struct {
	toks    [][]byte // index 0 = TID first
	first   uint32
	ordered bool
}

func (p *sliceProvider) GetToken(tid uint32) []byte { return p.toks[tid-p.first] }
func (p *sliceProvider) FirstTID() uint32           { return p.first }
func (p *sliceProvider) LastTID() uint32            { return p.first + uint32(len(p.toks)) - 1 }
func (p *sliceProvider) Ordered() bool              { return p.ordered }

func literalOf(field, pat string) *parser.Literal {
	l := &parser.Literal{Field: field}
	segs := strings.Split(pat, "*")
	for i, s := range segs {
		if i > 0 {
			l.Terms = append(l.Terms, parser.Term{Kind: parser.TermSymbol, Data: "*"})
		}
		if s != "" {
			l.Terms = append(l.Terms, parser.Term{Kind: parser.TermText, Data: s})
		}
	}
	if len(l.Terms) == 0 {
		l.Terms = []parser.Term{{Kind: parser.TermText, Data: ""}}
	}
	return l
}

func rangeOf(q *model.Q) *parser.Range {
	r := &parser.Range{Field: q.Field, IncludeFrom: q.LoInc, IncludeTo: q.HiInc}
	r.From = parser.Term{Kind: parser.TermText, Data: q.Lo}
	if q.LoUnb {
		r.From = parser.Term{Kind: parser.TermSymbol, Data: "*"}
	}
	r.To = parser.Term{Kind: parser.TermText, Data: q.Hi}
	if q.HiUnb {
		r.To = parser.Term{Kind: parser.TermSymbol, Data: "*"}
	}
	return r
}

func allStrings(alpha string, maxLen int) []string {
	out := []string{""}
	prev := []string{""}
	for l := 1; l <= maxLen; l++ {
		var cur []string
		for _, p := range prev {
			for _, c := range alpha {
				cur = append(cur, p+string(c))
			}
		}
		out = append(out, cur...)
		prev = cur
	}
	return out
}

func searchTIDs(tok parser.Token, p *sliceProvider) (map[uint32]bool, error) {
	var tids []uint32
	var err error
	if pn := h.Guard(func() { tids, err = pattern.Search(context.Background(), tok, p) }); pn != "" {
		return nil, fmt.Errorf("panic: %s", pn)
	}
	if err != nil {
		return nil, err
	}
	m := map[uint32]bool{}
	for _, t := range tids {
		m[t] = true
	}
	return m, nil
}

func runC13(w *h.W, batch int) {
	nb := nbOf("C13", w.Tier)
	r := w.Rng()
	// ---------- (a) patterns x tokens
	maxLen := 5
	if !w.Quick() {
		maxLen = 6
	}
	tokens := allStrings("ab", maxLen)
	pats := allStrings("ab*", maxLen)
	unordered := &sliceProvider{first: 1}
	shuf := r.Perm(len(tokens))
	for _, i := range shuf {
		unordered.toks = append(unordered.toks, []byte(tokens[i]))
	}
	sortedToks := append([]string{}, tokens...)
	sort.Strings(sortedToks)
	ordered := &sliceProvider{first: 1, ordered: true}
	for _, t := range sortedToks {
		ordered.toks = append(ordered.toks, []byte(t))
	}
	for pi, pat := range pats {
		if pi%nb != batch || strings.Contains(pat, "**") {
			continue
		}
		if !w.Begin(map[string]any{"part": "pattern", "pattern": pat, "tokens": len(tokens), "max_len": maxLen}) {
			continue
		}
		lit := literalOf("f", pat)
		bad := ""
		matched := 0
		for _, prov := range []*sliceProvider{unordered, ordered} {
			got, err := searchTIDs(lit, prov)
			if err != nil {
				bad = "pattern.Search failed: " + err.Error()
				break
			}
			for i, t := range prov.toks {
				want := model.Glob(pat, string(t))
				if want {
					matched++
				}
				if got[prov.first+uint32(i)] != want {
					bad = fmt.Sprintf("pattern %q token %q ordered=%v: matched=%v, glob says %v", pat, t, prov.ordered, !want, want)
					break
				}
			}
			if bad != "" {
				break
			}
		}
		w.Count("pattern_token_pairs", int64(2*len(tokens)))
		if bad != "" {
			w.Violation("C13:wrong-glob-match", map[string]any{"diff": bad})
			continue
		}
		w.Held("pat|"+pat, matched > 0 && matched < 2*len(tokens))
	}
	// ---------- (b) ranges
	vals := []string{"", "0", "1", "2", "10", "-1", "1.5", "01", "1e1", "a", "b", "ab", "-", "1a", "9", "+1", "inf", "nan", ".5"}
	ri := 0
	for _, lo := range append(vals, "\x00unb") {
		for _, hi := range append(vals, "\x00unb") {
			for flags := 0; flags < 4; flags++ {
				ri++
				if ri%nb != batch {
					continue
				}
				q := &model.Q{Op: "range", Field: "f", Lo: lo, Hi: hi, LoInc: flags&1 == 1, HiInc: flags&2 == 2}
				if lo == "\x00unb" {
					q.LoUnb, q.Lo = true, ""
				}
				if hi == "\x00unb" {
					q.HiUnb, q.Hi = true, ""
				}
				if !w.Begin(map[string]any{"part": "range", "lo": q.Lo, "hi": q.Hi, "lo_unbounded": q.LoUnb, "hi_unbounded": q.HiUnb, "lo_inc": q.LoInc, "hi_inc": q.HiInc}) {
					continue
				}
				// tokens: the value set plus numbers beyond the 64-bit integer range (never used as ends: keeps the case count)
				toks := append(append([]string{}, vals...), "1e19", "18446744073709551615", "1e300", "-1e300", "-9223372036854775809", "9223372036854775807")
				prov := &sliceProvider{first: 1}
				for _, v := range toks {
					prov.toks = append(prov.toks, []byte(v))
				}
				got, err := searchTIDs(rangeOf(q), prov)
				bad := ""
				matched := 0
				if err != nil {
					bad = "pattern.Search failed: " + err.Error()
				}
				for i, v := range toks {
					if bad != "" {
						break
					}
					want := q.RangeMatch(v)
					if want {
						matched++
					}
					if got[uint32(i+1)] != want {
						bad = fmt.Sprintf("range lo=%q hi=%q unb=%v/%v inc=%v/%v token %q: matched=%v expected %v", q.Lo, q.Hi, q.LoUnb, q.HiUnb, q.LoInc, q.HiInc, v, !want, want)
					}
				}
				w.Count("range_token_pairs", int64(len(toks)))
				if bad != "" {
					w.Violation("C13:wrong-range-match", map[string]any{"diff": bad})
					continue
				}
				w.Held(fmt.Sprintf("range|%s|%s|%d", lo, hi, flags), matched > 0 && matched < len(vals))
			}
		}
	}
	// ---------- (c) dictionaries x block splits x patterns through the real SelectEntries
	dictAlphaLen, dictMax, patLen := 3, 4, 3
	if !w.Quick() {
		dictAlphaLen, dictMax, patLen = 3, 6, 4
	}
	universe := allStrings("ab", dictAlphaLen)
	sort.Strings(universe)
	cpats := allStrings("ab*", patLen)
	di := 0
	var rec func(start int, cur []string)
	rec = func(start int, cur []string) {
		if len(cur) > 0 {
			di++
			if di%nb == batch {
				c13Dict(w, cur, cpats)
			}
		}
		if len(cur) == dictMax {
			return
		}
		for i := start; i < len(universe); i++ {
			rec(i+1, append(append([]string{}, cur...), universe[i]))
		}
	}
	rec(0, nil)
	// ---------- (d) seeded larger dictionaries and longer strings
	nd := 6
	if !w.Quick() {
		nd = 30
	}
	for k := 0; k < nd; k++ {
		dr := r.Fork()
		n := dr.LogInt(5, 400)
		set := map[string]bool{}
		for len(set) < n {
			l := dr.LogInt(0, 12)
			b := make([]byte, l)
			for i := range b {
				b[i] = "abc"[dr.Intn(3)]
			}
			set[string(b)] = true
		}
		var dict []string
		for s := range set {
			dict = append(dict, s)
		}
		sort.Strings(dict)
		var ps []string
		for i := 0; i < 60; i++ {
			base := h.Pick(dr, dict)
			p := base
			switch dr.Intn(5) {
			case 0:
				p = base[:dr.Intn(len(base)+1)] + "*"
			case 1:
				p = "*" + base[dr.Intn(len(base)+1):]
			case 2:
				a := dr.Intn(len(base) + 1)
				p = base[:a] + "*" + base[a:]
			case 3:
				p = base + "*" + base
			}
			ps = append(ps, p)
		}
		c13DictSplits(w, dict, ps, dr, 12)
	}
	c13Live(w, batch)
}

// c13Live (e): the block-loading dictionary of a real sealed fraction against the in-memory one of the active fraction and
// the DP matcher: one store per batch, one document per token of a seeded dictionary (small exhaustive alphabet part plus,
// in every other batch, enough long tokens for several dictionary blocks), every pattern / range as a search on the field,
// before and after sealing. case = one (dictionary, filter); the result must be the documents whose token matches.
func c13Live(w *h.W, batch int) {
	r := w.Rng(555)
	set := map[string]bool{}
	for _, t := range allStrings("ab", 3) {
		if t != "" {
			set[t] = true
		}
	}
	long := batch%2 == 1
	if long {
		for i := 0; i < 900; i++ {
			b := make([]byte, r.Range(20, 40))
			for j := range b {
				b[j] = "abc"[r.Intn(3)]
			}
			set[string(b)] = true
		}
	}
	for i := 0; i < 12; i++ {
		set[fmt.Sprint(r.Intn(40)-10)] = true
	}
	var dict []string
	for t := range set {
		dict = append(dict, t)
	}
	sort.Strings(dict)
	var docs []*model.Doc
	for i, t := range dict {
		id := model.ID{MID: gen.T0 + uint64(i), RID: uint64(i + 1)}
		body := fmt.Sprintf(`{"i":%d}`, i)
		docs = append(docs, &model.Doc{ID: id, Body: []byte(body), Toks: []model.Tok{{F: "k1", V: t}}})
	}
	st, err := sdb.Open(w.Sub("live"), sdb.Opt{Mapping: StoreMapping()})
	if err != nil {
		if w.Begin(map[string]any{"part": "live", "step": "open"}) {
			w.Violation("C13:store-did-not-start", map[string]any{"error": err.Error()})
		}
		return
	}
	defer func() { st.Stop() }()
	if err := st.Bulk(shuffled(r, docs)); err != nil {
		if w.Begin(map[string]any{"part": "live", "step": "ingest"}) {
			w.Violation("C13:bulk-error", map[string]any{"error": err.Error()})
		}
		return
	}
	st.WaitIdle()
	var qs []*model.Q
	for _, p := range allStrings("ab*", 3) {
		if p != "" && !strings.Contains(p, "**") {
			qs = append(qs, &model.Q{Op: "lit", Field: "k1", Pat: p})
		}
	}
	for i := 0; i < 40; i++ {
		base := h.Pick(r, dict)
		p := base
		switch r.Intn(5) {
		case 0:
			p = base[:r.Intn(len(base)+1)] + "*"
		case 1:
			p = "*" + base[r.Intn(len(base)+1):]
		case 2:
			a := r.Intn(len(base) + 1)
			p = base[:a] + "*" + base[a:]
		case 3:
			p = "*"
		}
		qs = append(qs, &model.Q{Op: "lit", Field: "k1", Pat: p})
	}
	// the field's first and last token, exactly and as a prefix (block pre-selection borders)
	for _, t := range []string{dict[0], dict[len(dict)-1]} {
		qs = append(qs, &model.Q{Op: "lit", Field: "k1", Pat: t}, &model.Q{Op: "lit", Field: "k1", Pat: t[:len(t)-1] + "*"})
	}
	ends := []string{"-10", "0", "5", "29", "a", "ab", "b", "bbb", "c"}
	for i := 0; i < 24; i++ {
		q := &model.Q{Op: "range", Field: "k1", Lo: h.Pick(r, ends), Hi: h.Pick(r, ends), LoInc: r.Bool(), HiInc: r.Bool(), LoUnb: r.Chance(1, 6), HiUnb: r.Chance(1, 6)}
		qs = append(qs, q)
	}
	for _, form := range []string{"active", "sealed", "reloaded"} {
		switch form {
		case "sealed":
			st.SealAll()
		case "reloaded":
			// the token table is read back from the index file (not the one kept from sealing)
			st.Stop()
			st2, err := sdb.Open(st.Dir, sdb.Opt{Mapping: StoreMapping()})
			if err != nil {
				if w.Begin(map[string]any{"part": "live", "step": "reopen"}) {
					w.Violation("C13:store-did-not-start", map[string]any{"error": err.Error()})
				}
				return
			}
			st = st2
		}
		for _, q := range qs {
			text := q.SeqQL(r)
			desc := map[string]any{"part": "live", "form": form, "filter": text, "dictionary_tokens": len(dict), "multi_block": long}
			if !w.Begin(desc) {
				continue
			}
			exp := model.Search(docs, model.Req{Q: q, From: 0, To: 1 << 62, Limit: 1 << 30})
			res, err := st.Search(sdb.SearchReq{Query: text, SeqQL: true, From: 0, To: 1 << 62, Size: len(docs) + 10})
			w.Count("live_searches", 1)
			switch {
			case err != nil:
				w.Violation("C13:live-error:"+errSig(err.Error()), map[string]any{"case": desc, "error": err.Error()})
			case !idsEqual(res.IDs, exp.IDs):
				var miss []string
				got := map[model.ID]bool{}
				for _, id := range res.IDs {
					got[id] = true
				}
				for _, d := range exp.Docs {
					if !got[d.ID] && len(miss) < 5 {
						miss = append(miss, d.Toks[0].V)
					}
				}
				w.Violation("C13:live-wrong-tokens:"+form, map[string]any{"case": desc, "diff": fmt.Sprintf("matched %d documents, expected %d; tokens missed (first): %q", len(res.IDs), len(exp.IDs), miss)})
			default:
				w.Held(fmt.Sprintf("live|%s|%v|%s", form, long, q.Shape()), len(exp.IDs) > 0 && len(exp.IDs) < len(docs))
			}
		}
	}
}

// c13Dict: one dictionary, every split into consecutive blocks, every pattern.
func c13Dict(w *h.W, dict []string, pats []string) {
	if !w.Begin(map[string]any{"part": "narrowing", "dictionary": dict}) {
		return
	}
	n := len(dict)
	bad := ""
	nontrivial := false
	checks := 0
	for mask := 0; mask < 1<<(n-1) && bad == ""; mask++ {
		var cuts []int // block end indexes (exclusive)
		for i := 0; i < n-1; i++ {
			if mask>>i&1 == 1 {
				cuts = append(cuts, i+1)
			}
		}
		cuts = append(cuts, n)
		s, nt, c := c13Check(dict, cuts, pats)
		bad = s
		checks += c
		nontrivial = nontrivial || nt
	}
	w.Count("narrowing_checks", int64(checks))
	if bad != "" {
		w.Violation("C13:narrowing-differs-from-scan", map[string]any{"diff": bad})
		return
	}
	w.Held("dict|"+strings.Join(dict, ","), nontrivial)
}

func c13DictSplits(w *h.W, dict []string, pats []string, r *h.Rng, splits int) {
	if !w.Begin(map[string]any{"part": "narrowing-seeded", "dictionary_size": len(dict), "first": dict[:min(5, len(dict))]}) {
		return
	}
	bad := ""
	nontrivial := false
	checks := 0
	for s := 0; s < splits && bad == ""; s++ {
		var cuts []int
		for i := 1; i < len(dict); i++ {
			if r.Chance(1, 1+r.Intn(20)) {
				cuts = append(cuts, i)
			}
		}
		cuts = append(cuts, len(dict))
		d, nt, c := c13Check(dict, cuts, pats)
		bad = d
		checks += c
		nontrivial = nontrivial || nt
	}
	w.Count("narrowing_checks", int64(checks))
	if bad != "" {
		w.Violation("C13:narrowing-differs-from-scan", map[string]any{"diff": bad})
		return
	}
	w.Held(fmt.Sprintf("dict-seeded|%d|%s", len(dict), dict[len(dict)/2]), nontrivial)
}

func c13Check(dict []string, cuts []int, pats []string) (bad string, nontrivial bool, checks int) {
	// token table of the field as the sealer builds it: one entry per block, MaxVal = last token, field MinVal = first token
	fd := &token.FieldData{MinVal: dict[0]}
	start := 0
	for _, end := range cuts {
		e := &token.TableEntry{StartTID: uint32(start + 1), ValCount: uint32(end - start), MaxVal: dict[end-1]}
		if start == 0 {
			e.MinVal = dict[0]
		}
		fd.Entries = append(fd.Entries, e)
		start = end
	}
	table := token.Table{"f": fd}
	for _, pat := range pats {
		if strings.Contains(pat, "**") {
			continue
		}
		lit := literalOf("f", pat)
		checks++
		want := map[uint32]bool{}
		for i, t := range dict {
			if model.Glob(pat, t) {
				want[uint32(i+1)] = true
			}
		}
		if len(want) > 0 && len(want) < len(dict) {
			nontrivial = true
		}
		var entries []*token.TableEntry
		if pn := h.Guard(func() { entries = table.SelectEntries("f", parser.GetHint(lit)) }); pn != "" {
			return fmt.Sprintf("SelectEntries panicked for dict=%v cuts=%v pattern=%q: %.300s", dict, cuts, pat, pn), nontrivial, checks
		}
		got := map[uint32]bool{}
		if len(entries) > 0 {
			first := entries[0].StartTID
			last := entries[len(entries)-1].StartTID + entries[len(entries)-1].ValCount - 1
			prov := &sliceProvider{first: first, ordered: true}
			for tid := first; tid <= last; tid++ {
				prov.toks = append(prov.toks, []byte(dict[tid-1]))
			}
			g, err := searchTIDs(lit, prov)
			if err != nil {
				return fmt.Sprintf("pattern.Search failed for dict=%v cuts=%v pattern=%q: %v", dict, cuts, pat, err), nontrivial, checks
			}
			got = g
		}
		if len(got) != len(want) {
			return fmt.Sprintf("dict=%v block ends=%v pattern=%q: narrowed search found %d tokens, full scan %d", dict, cuts, pat, len(got), len(want)), nontrivial, checks
		}
		for tid := range want {
			if !got[tid] {
				return fmt.Sprintf("dict=%v block ends=%v pattern=%q: token %q missed by the narrowed search", dict, cuts, pat, dict[tid-1]), nontrivial, checks
			}
		}
	}
	return "", nontrivial, checks
}
