package props

import (
	"encoding/json"
	"fmt"
	"os"
	"path/filepath"
	"sort"
	"strings"
	"time"

	"verif/internal/gen"
	"verif/internal/h"
	"verif/internal/model"
)

// C15 — start-up, retention and deletion are crash-safe and only drop the oldest data.

func init() {
	h.Register(&h.Prop{
		ID:    "C15",
		Level: "fault_enumeration",
		Rule: "case = one restart of a seeded lifecycle history on a store with a few-KiB fraction size, a retention limit of 4..8 fractions and a 3 ms maintenance loop: rounds of [restart -> verify everything -> ingest 20..60 bulks (dozens of rotations, background seals, retention deletions) -> " +
			"crash at the k-th hit of a lifecycle hook (between the two file creations of a new active fraction, rotation, each rename/remove of sealed and active deletion, retention shift, .frac-cache temp written/renamed, seal publication, release) or clean exit], " +
			"each crash followed by a power-loss variant (unsynced tails of .docs/.meta truncated; .frac-cache left, truncated to a seeded length, or deleted); " +
			"every third history has slow seals (seeded sleeps up to 40 ms at the sealer's hooks, or the k-th seal parked for the rest of the process lifetime and the process killed at the end of ingestion), so that retention shifts out fractions that are still being sealed. " +
			"oracle per restart: the store comes up; every bulk is wholly served or wholly gone, byte-identical; bulks seen in one fraction share their fate; the acknowledged bulks still served form a suffix of the ingestion order (oldest-first retention); " +
			"a bulk seen gone never reappears; online: every fraction list sampled during the run is a suffix of the creation order. non-trivial = the restart follows a crash and some acknowledged data had been retired; distinct = (crash point, hit class, tear class, round)",
		Assumptions: []string{
			"TotalSize >= 4 x FracSize (retiring the fraction being written is a misconfiguration outside the statement)",
			"maintenance is timer driven: which hook hit a crash lands on is scheduler dependent, the directory state is judged as found",
		},
		Batches: tiered(64, 1536),
		Run:     runC15,
		Timeout: timeoutFor(3*time.Minute, 45*time.Minute),
	})
}

var c15CrashPoints = []string{"active.create.docs_created", "fm.rotate.created", "fm.rotate.done", "fm.retention.shifted", "sealed.suicide.begin", "sealed.suicide.docs_renamed", "sealed.suicide.sdocs_renamed",
	"sealed.suicide.index_renamed", "sealed.suicide.docs_removed", "sealed.suicide.sdocs_removed", "active.suicide.begin", "active.suicide.meta_removed", "fraccache.tmp.created", "fraccache.tmp.written", "fraccache.renamed",
	"pfrac.seal.published", "active.release.begin", "active.release.meta_removed", "fm.seal.installed", "seal.renamed", "seal.dir.synced", "aw.docs.done"}

type c15Bulk struct {
	id     int
	acked  bool
	frac   string // fraction name observed while the bulk was served
	gone   bool   // observed gone in a verify
	status string
}

// fracListIsSuffix: names are ULIDs (creation ordered); the served list must not miss a fraction in the middle.
func fracListIsSuffix(list []string, everSeen map[string]bool) string {
	var names []string
	for _, s := range list {
		parts := strings.SplitN(s, ":", 2)
		if len(parts) == 2 && parts[1] == "0" {
			continue // an empty active fraction holds no data: it is dropped at the next start, whatever its age
		}
		n := parts[0]
		names = append(names, n)
		everSeen[n] = true
	}
	if len(names) == 0 {
		return ""
	}
	sort.Strings(names)
	oldest := names[0]
	served := map[string]bool{}
	for _, n := range names {
		served[n] = true
	}
	for n := range everSeen {
		if n > oldest && !served[n] {
			return fmt.Sprintf("fraction %s is not served although the older fraction %s still is", n, oldest)
		}
	}
	return ""
}

func runC15(w *h.W, batch int) {
	r := w.Rng()
	nHist := 3
	for hi := 0; hi < nHist; hi++ {
		hr := r.Fork()
		work := w.Sub(fmt.Sprintf("h%d", hi))
		dir := filepath.Join(work, "data")
		os.MkdirAll(dir, 0o755)
		fracSize := uint64(hr.Range(4, 10)) * 1024
		opt := phaseOpt{FracSize: fracSize, TotalSize: fracSize * uint64(hr.Range(4, 8)), MaintenanceMs: 3, CacheSize: 8 << 20, SkipSortDocs: hr.Chance(1, 4)}
		var bulks []*c15Bulk
		byID := map[int]*c15Bulk{}
		usedIDs := map[model.ID]bool{}
		everSeen := map[string]bool{}
		next := 0
		rounds := hr.Range(2, 4)
		prevCrash := ""
		var prevTear []string
		retired := 0
		dead := false
		for round := 0; round <= rounds+1 && !dead; round++ {
			final := round >= rounds
			spec := phaseSpec{Dir: dir, Work: work, Opt: opt, Out: filepath.Join(work, fmt.Sprintf("out-%d.jsonl", round)), Events: filepath.Join(work, fmt.Sprintf("events-%d.log", round))}
			for _, b := range bulks {
				spec.Known = append(spec.Known, b.id)
			}
			// the verification runs in a process of its own with an idle maintenance loop (only the start-up pass runs),
			// so that retention does not retire fractions between the search and the fetch of one bulk
			vspec := spec
			vspec.Opt.MaintenanceMs = 3600000
			vspec.Out = filepath.Join(work, fmt.Sprintf("vout-%d.jsonl", round))
			vspec.Events = filepath.Join(work, fmt.Sprintf("vevents-%d.log", round))
			vspec.Steps = []phaseStep{{Op: "settle"}, {Op: "verify"}}
			var fresh []*c15Bulk
			crashDesc := "none"
			if !final {
				nb := hr.Range(20, 60)
				for i := 0; i < nb; i++ {
					c := gen.MakeCorpus(hr, gen.CorpusOpt{N: hr.Range(3, 25), Vocab: 3, MIDSpread: 50, MaxToks: 1, BodyPad: 200, BaseMID: gen.T0 + uint64(next)*100, Tag: fmt.Sprintf("b%dh%dk%d", batch, hi, next)})
					for _, d := range c.Docs {
						for usedIDs[d.ID] {
							d.ID.RID++
						}
						usedIDs[d.ID] = true
					}
					b := &c15Bulk{id: next}
					next++
					writeBulkFile(work, b.id, c.Docs)
					bulks = append(bulks, b)
					byID[b.id] = b
					fresh = append(fresh, b)
					spec.Steps = append(spec.Steps, phaseStep{Op: "bulk", Bulk: b.id}, phaseStep{Op: "pace", N: 1})
					if i%7 == 6 {
						spec.Steps = append(spec.Steps, phaseStep{Op: "fracs"})
					}
				}
				spec.Steps = append(spec.Steps, phaseStep{Op: "sleep_maint", N: 40}, phaseStep{Op: "fracs"})
				if !hr.Chance(1, 6) {
					spec.CrashPoint = h.Pick(hr, c15CrashPoints)
					spec.CrashAt = int64(hr.LogInt(1, 12))
					if strings.HasPrefix(spec.CrashPoint, "aw.") {
						spec.CrashAt = int64(hr.Range(1, nb))
					}
					crashDesc = fmt.Sprintf("%s#%d", spec.CrashPoint, spec.CrashAt)
				}
			}
			if hi == 2 {
				// slow seals (a loaded machine): retention then shifts out fractions whose seal is still running, followed by
				// fractions that are already sealed; what is on disk at a crash must still be a suffix of the ingestion order
				spec.SlowPoints = map[string]int{"seal.index.created": 40, "seal.sdocs.created": 40}
				if !final && hr.Chance(1, 3) {
					// extreme case of a slow seal: the k-th seal of this process lifetime never finishes (its goroutine is parked
					// before the index is written); the process is killed at the end of the ingestion
					spec.SlowPoints = nil
					spec.HoldPoint, spec.HoldAt = "seal.index.created", int64(hr.Range(1, 3))
					spec.CrashPoint, spec.CrashAt = "", 0
					spec.Steps = append(spec.Steps, phaseStep{Op: "crash"})
					crashDesc = fmt.Sprintf("kill at the end; seal #%d parked forever", spec.HoldAt)
				} else if spec.CrashPoint != "" && hr.Chance(1, 2) {
					spec.CrashPoint = h.Pick(hr, []string{"fm.retention.shifted", "sealed.suicide.sdocs_removed", "sealed.suicide.index_renamed", "sealed.suicide.begin", "active.release.meta_removed"})
					spec.CrashAt = int64(hr.Range(1, 8))
					crashDesc = fmt.Sprintf("%s#%d", spec.CrashPoint, spec.CrashAt)
				}
			}
			specPath := filepath.Join(work, fmt.Sprintf("spec-%d.json", round))
			writeSpec(specPath, spec)
			desc := map[string]any{"history": fmt.Sprintf("b%d/h%d", batch, hi), "round": round, "slow_seals": hi == 2, "frac_size": opt.FracSize, "total_size": opt.TotalSize, "restart_after": prevCrash, "tear_applied": prevTear,
				"bulks_known": len(bulks) - len(fresh), "then_ingest": len(fresh), "then_crash_at": crashDesc}
			active := w.Begin(desc)
			vpath := filepath.Join(work, fmt.Sprintf("vspec-%d.json", round))
			writeSpec(vpath, vspec)
			delBefore := map[string]bool{}
			for _, f := range delFiles(dir) {
				delBefore[f] = true
			}
			res := h.SpawnPhase(work, "store", 3*time.Minute, nil, vpath)
			evs := readPhaseOut(vspec.Out)
			delAfterV := delFiles(dir)
			startSizes := fileSizes(dir)
			var hookEvs []hookEvent
			var ires h.PhaseResult
			if !final && res.ExitCode == 0 && !res.TimedOut {
				ires = h.SpawnPhase(work, "store", 3*time.Minute, nil, specPath)
				evs = append(evs, readPhaseOut(spec.Out)...)
				hookEvs = readEvents(spec.Events)
				if ires.TimedOut {
					res.TimedOut = true
				}
			}
			w.Count("phases", 2)
			bad, class := "", ""
			ready := false
			var ver *phaseEvent
			everSeen = map[string]bool{} // within one process lifetime fractions holding data disappear only through retention
			for i := range evs {
				e := &evs[i]
				switch e.Ev {
				case "ready":
					ready = true
					everSeen = map[string]bool{}
				case "verify":
					ver = e
				case "ack":
					byID[e.Bulk].acked = true
				case "fracs", "sealed":
					if s := fracListIsSuffix(e.Fracs, everSeen); s != "" && bad == "" {
						class, bad = "not-oldest-first", "fraction list sampled during the run: "+s
					}
					w.Count("fraction_lists_sampled", 1)
				}
			}
			switch {
			case res.TimedOut:
				dead = true
			case !ready:
				class = "store-did-not-start:" + h.CrashFrame(res.Stderr)
				bad = fmt.Sprintf("the store did not come up after %s, torn %v (exit %d): %.700s", prevCrash, prevTear, res.ExitCode, res.Stderr)
			case ver == nil:
				class = "died-while-serving:" + h.CrashFrame(res.Stderr)
				bad = fmt.Sprintf("the process died while answering after the restart (exit %d): %.700s", res.ExitCode, res.Stderr)
			case bad == "":
				if ver.Err != "" {
					class, bad = "error-returned:"+errSig(ver.Err), ver.Err
				}
				if len(ver.Foreign) > 0 && bad == "" {
					class, bad = "foreign-id", fmt.Sprintf("IDs no bulk carried: %v", ver.Foreign[:min(3, len(ver.Foreign))])
				}
				fate := map[string]string{} // fraction -> whole|gone
				for _, bv := range ver.Verify {
					if bad != "" {
						break
					}
					b := byID[bv.Bulk]
					whole := bv.FetchOK == bv.N && bv.SearchPresent == bv.N && len(bv.TokenMissing) == 0 && len(bv.FetchWrong) == 0
					gone := bv.FetchOK == 0 && bv.SearchPresent == 0 && len(bv.FetchWrong) == 0
					switch {
					case bv.Err != "":
						class, bad = "error-returned:"+errSig(bv.Err), fmt.Sprintf("bulk %d: %s", bv.Bulk, bv.Err)
					case len(bv.FetchWrong) > 0:
						class, bad = "wrong-bytes", fmt.Sprintf("bulk %d: %v", bv.Bulk, bv.FetchWrong)
					case !whole && !gone:
						class = "partial-fraction"
						bad = fmt.Sprintf("bulk %d is partially served: %d documents, fetched %d, listed %d, token misses %v (fractions %v)", bv.Bulk, bv.N, bv.FetchOK, bv.SearchPresent, bv.TokenMissing, bv.Hints)
					case whole && b.gone:
						class = "reappeared"
						bad = fmt.Sprintf("bulk %d had been observed gone (its fraction's deletion had begun) and is served again from %v", bv.Bulk, bv.Hints)
					}
					if bad != "" {
						break
					}
					if whole {
						b.status = "whole"
						if len(bv.Hints) == 1 {
							b.frac = bv.Hints[0]
						} else if len(bv.Hints) > 1 {
							class, bad = "bulk-in-two-fractions", fmt.Sprintf("bulk %d is served by several fractions %v", bv.Bulk, bv.Hints)
						}
					} else {
						b.status = "gone"
						if b.acked {
							b.gone = true
						}
					}
					if b.frac != "" {
						if f, ok := fate[b.frac]; ok && f != b.status && bad == "" {
							class = "partial-fraction"
							bad = fmt.Sprintf("fraction %s is neither completely served nor completely gone: bulk %d is %s, another of its bulks is %s", b.frac, b.id, b.status, f)
						}
						fate[b.frac] = b.status
					}
				}
				// oldest-first: the acknowledged bulks still served form a suffix of the ingestion order
				if bad == "" {
					seenWhole := -1
					for _, b := range bulks {
						if !b.acked || b.status == "" {
							continue
						}
						if b.status == "whole" && seenWhole < 0 {
							seenWhole = b.id
						}
						if b.status == "gone" && seenWhole >= 0 {
							class = "not-oldest-first"
							bad = fmt.Sprintf("acknowledged bulk %d is gone although the older acknowledged bulk %d is still served", b.id, seenWhole)
							break
						}
					}
				}
			}
			if bad == "" && ready && ver != nil {
				// a deletion marker that was on disk before this start must be gone after it (markers created by this
				// process's own retention pass may legitimately be in flight when it exits)
				for _, f := range delAfterV {
					if delBefore[f] {
						class, bad = "deletion-not-finished", fmt.Sprintf("%s was on disk before the start and is still there after a complete start-up: the deletion that had begun was not finished off", f)
						break
					}
				}
			}
			retiredNow := 0
			for _, b := range bulks {
				if b.gone {
					retiredNow++
				}
			}
			crashed := ires.ExitCode == 77
			if !final && ready && !crashed && ires.ExitCode != 0 && bad == "" && !res.TimedOut {
				class = "died-while-running:" + h.CrashFrame(ires.Stderr)
				bad = fmt.Sprintf("the process died without an injected crash (exit %d): %.700s", ires.ExitCode, ires.Stderr)
			}
			var tear []string
			if crashed {
				w.Count("crashes_injected", 1)
				w.Distinct("crash_points_reached", spec.CrashPoint)
				tear = tearFiles(hr, dir, hookEvs, h.Pick(hr, []string{"none", "max", "mid"}), startSizes)
				// .frac-cache is written without fsync: after a power loss it may be stale, partial or missing
				fc := filepath.Join(dir, ".frac-cache")
				if st, err := os.Stat(fc); err == nil {
					switch hr.Intn(5) {
					case 4:
						// well-formed but useless: empty entries for the sealed fractions on disk (a cache the store cannot trust)
						ents := map[string]map[string]any{}
						names, _ := filepath.Glob(filepath.Join(dir, "*.index"))
						for _, n := range names {
							ents[strings.TrimSuffix(filepath.Base(n), ".index")] = map[string]any{}
						}
						if b, err := json.Marshal(ents); err == nil && len(ents) > 0 {
							os.WriteFile(fc, b, 0o644)
							tear = append(tear, ".frac-cache with empty entries")
						}
					case 0:
						os.Truncate(fc, int64(hr.Intn(int(st.Size())+1)))
						tear = append(tear, ".frac-cache truncated")
					case 1:
						os.Remove(fc)
						tear = append(tear, ".frac-cache deleted")
					case 2:
						os.WriteFile(fc, []byte(`{"seq-db-00000000000000000000000000":{"name":"ghost"}`), 0o644)
						tear = append(tear, ".frac-cache corrupt")
					}
				}
			} else if spec.CrashPoint != "" && ready {
				w.Count("crash_point_not_reached", 1)
			}
			nt := prevCrash != "" && prevCrash != "none" && retired > 0
			if res.TimedOut && active {
				w.Inconclusive("watchdog: phase did not finish")
			} else if active {
				if bad != "" {
					// diagnostics: which fraction every acknowledged bulk was last seen in, and the fraction lists the processes reported
					var table []string
					for _, b := range bulks {
						if b.acked {
							table = append(table, fmt.Sprintf("%d:%s:%s", b.id, b.status, strings.TrimPrefix(b.frac, "seq-db-")))
						}
					}
					var lists []string
					for _, e := range evs {
						if len(e.Fracs) > 0 || e.Ev == "ready" {
							lists = append(lists, e.Ev+"="+strings.ReplaceAll(strings.Join(e.Fracs, ","), "seq-db-", ""))
						}
					}
					w.Violation("C15:"+class, map[string]any{"diff": bad, "case": desc, "dir_listing": listDir(dir), "bulk_status_fraction": table, "fraction_lists": lists})
					dead = true
				} else {
					if nt && w.WantSample() {
						w.Sample(desc)
					}
					tc := "notear"
					if len(prevTear) > 0 {
						tc = "torn"
					}
					w.Held(fmt.Sprintf("%s|%s|r%d", strings.SplitN(prevCrash, "#", 2)[0], tc, round), nt)
				}
			}
			retired = retiredNow
			w.Count("bulks_retired_observed", int64(retiredNow))
			prevCrash, prevTear = crashDesc, tear
		}
		os.RemoveAll(work)
	}
}

func listDir(dir string) []string {
	var out []string
	files, _ := filepath.Glob(filepath.Join(dir, "*"))
	for _, f := range files {
		if st, err := os.Stat(f); err == nil {
			out = append(out, fmt.Sprintf("%s:%d", filepath.Base(f), st.Size()))
		}
	}
	hidden, _ := filepath.Glob(filepath.Join(dir, ".*"))
	for _, f := range hidden {
		if st, err := os.Stat(f); err == nil && !st.IsDir() {
			out = append(out, fmt.Sprintf("%s:%d", filepath.Base(f), st.Size()))
		}
	}
	return out
}

func delFiles(dir string) []string {
	var out []string
	files, _ := filepath.Glob(filepath.Join(dir, "*.del"))
	for _, f := range files {
		out = append(out, filepath.Base(f))
	}
	return out
}
