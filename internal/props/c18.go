package props

import (
	"errors"
	"fmt"
	"runtime"
	"sync"
	"sync/atomic"
	"time"

	"github.com/ozontech/seq-db/cache"

	"verif/internal/h"
	"verif/internal/hk"
)

// C18 — the block cache is coherent, accounted and bounded.

func init() {
	h.Register(&h.Prop{
		ID:    "C18",
		Level: "exploration",
		Rule: "parts: (A) management, exhaustive: for n<=6 caches sharing a cleaner, every assignment of each cache to {live, released in round 1, released in round 2}; after each ReleaseBuckets every live cache must still be managed, " +
			"and a Rotate+Cleanup pass must bring the accounted size under the limit; (B) concurrent model-based runs under the race detector: K caller goroutines + one maintenance goroutine (rotate, cleanup, clean-empty-generations, release-buckets), " +
			"seeded delays at hooks placed between the critical sections of Get/save/recover/Cleanup/ReleaseBuckets, loaders that yield, fail or panic, caches released and created while running (usage protocol respected); " +
			"every third run is wide (hundreds of small entries, tiny limit, maintenance every 8-20 ms) so that one pass empties a cache grown past 200 entries (map rebuild) under slow loaders; " +
			"monitors: coherence of every returned value, error/panic delivery, accounting equality and bound at quiescent barriers, management; " +
			"(C) scripted shrink-while-loading histories: a cache grown to 190-600 entries in one generation, rotation, 1-6 loads (ok/error/panic) parked in flight, a cleaning pass that drops >= 90 % of the map, loads released: " +
			"accounted == live (also after another pass; zero after release), every caller got its own loader's outcome. " +
			"case = one assignment (A) or one run (B); non-trivial (A) = at least one released and one live cache, (B) = the run saw waits on in-flight loads, failures and cleanups; distinct = assignment | (callers, caches, limit class, seed of the delay schedule)",
		Assumptions: []string{
			"no lookup is issued on a released cache and no load is in flight when a cache is released (the callers' protocol in seq-db: Release happens under the fraction's write lock)",
			"Rotate/Cleanup/CleanEmptyGenerations/ReleaseBuckets are called from one goroutine (the cleaner's threading contract)",
		},
		Batches: tiered(120, 2400),
		Run:     runC18,
		Race:    true,
		Timeout: timeoutFor(3*time.Minute, 45*time.Minute),
	})
}

type c18Val struct {
	cache int
	key   uint32
	inv   uint64
	sum   uint64
}

func c18Sum(cacheID int, key uint32, inv uint64) uint64 {
	return uint64(cacheID)*1000003 ^ uint64(key)*7919 ^ inv*0x9e3779b97f4a7c15
}

const (
	loadRunning = iota
	loadOK
	loadErr
	loadPanic
)

func runC18(w *h.W, batch int) {
	if batch%4 == 0 {
		c18Management(w, batch/4)
		return
	}
	c18Concurrent(w, batch)
	c18Shrink(w, batch)
}

// c18Shrink: scripted histories around the map rebuild of a cache that shrank a lot. One cache grows to n >= 200 small
// entries in one generation; after a rotation k loaders of new keys are parked in flight (some will fail or panic); a
// cleaning pass then drops the old generation (>= 90 % of the map: the map is rebuilt) with those loads in flight; the loads
// are let go. At quiescence: accounted size == sum of live entries (also after one more pass and after release: zero), and
// every caller got its own loader's outcome.
func c18Shrink(w *h.W, batch int) {
	r := w.Rng(4242)
	for ri := 0; ri < 4; ri++ {
		rr := r.Fork()
		n := rr.Range(190, 600)
		k := rr.Range(1, 6)
		keep := rr.Range(0, 25) // entries of the big generation touched again after the rotation (they survive the pass)
		limit := uint64(rr.Range(200, 3000))
		desc := map[string]any{"part": "shrink-while-loading", "entries": n, "loads_in_flight": k, "touched_again": keep, "limit": limit}
		if !w.Begin(desc) {
			continue
		}
		cl := cache.NewCleaner(limit, nil)
		c := cache.NewCache[*c18Val](cl, nil)
		for i := 0; i < n; i++ {
			key := uint32(i)
			c.Get(key, func() (*c18Val, int) { return &c18Val{key: key, inv: 1}, 8 })
		}
		cl.Rotate()
		for i := 0; i < keep; i++ {
			c.Get(uint32(i), func() (*c18Val, int) { return &c18Val{key: uint32(i), inv: 99}, 8 })
		}
		gate := make(chan struct{})
		started := make(chan struct{}, k)
		type outcome struct {
			v   *c18Val
			err error
			pv  any
		}
		outs := make([]outcome, k)
		modes := make([]int, k)
		var wg sync.WaitGroup
		for j := 0; j < k; j++ {
			modes[j] = h.Pick(rr, []int{0, 0, 0, 1, 2}) // ok, error, panic
			wg.Add(1)
			go func(j int) {
				defer wg.Done()
				key := uint32(100000 + j)
				defer func() { outs[j].pv = recover() }()
				outs[j].v, outs[j].err = c.GetWithError(key, func() (*c18Val, int, error) {
					started <- struct{}{}
					<-gate
					switch modes[j] {
					case 1:
						return nil, 0, fmt.Errorf("load %d failed", j)
					case 2:
						panic(fmt.Sprintf("load %d panicked", j))
					}
					return &c18Val{key: key, inv: uint64(j + 2)}, 16, nil
				})
			}(j)
		}
		for j := 0; j < k; j++ {
			<-started
		}
		before, _, _ := c.VerifLive()
		cl.Cleanup(&cache.CleanStat{})
		after, loading, _ := c.VerifLive()
		close(gate)
		wg.Wait()
		bad := ""
		for j := 0; j < k && bad == ""; j++ {
			switch modes[j] {
			case 0:
				if outs[j].pv != nil || outs[j].err != nil || outs[j].v == nil || outs[j].v.key != uint32(100000+j) {
					bad = fmt.Sprintf("caller %d: successful load returned %+v err=%v panic=%v", j, outs[j].v, outs[j].err, outs[j].pv)
				}
			case 1:
				if outs[j].err == nil || outs[j].pv != nil {
					bad = fmt.Sprintf("caller %d: failing load returned err=%v panic=%v", j, outs[j].err, outs[j].pv)
				}
			case 2:
				if outs[j].pv == nil {
					bad = fmt.Sprintf("caller %d: panicking load did not panic in its caller", j)
				}
			}
		}
		_, l2, live := c.VerifLive()
		if acc := cl.VerifAccountedSize(); bad == "" && (acc != live || l2 != 0) {
			bad = fmt.Sprintf("after the loads finished: accounted size %d != sum of live entries %d (entries still loading: %d); the pass took the map from %d to %d entries with %d loads in flight", acc, live, l2, before, after, loading)
		}
		// (whether a value loaded during the pass is kept is the cache's choice - its generation may have been dropped by the
		// same pass - so only correctness of what callers got and the accounting are judged)
		for j := 0; j < k && bad == ""; j++ {
			if modes[j] != 0 {
				continue
			}
			v := c.Get(uint32(100000+j), func() (*c18Val, int) { return &c18Val{key: uint32(100000 + j), inv: 7777}, 16 })
			if v == nil || v.key != uint32(100000+j) {
				bad = fmt.Sprintf("Get of key %d after the pass returned %+v", 100000+j, v)
			}
		}
		cl.Rotate()
		cl.Cleanup(&cache.CleanStat{})
		_, _, live = c.VerifLive()
		if acc := cl.VerifAccountedSize(); bad == "" && acc != live {
			bad = fmt.Sprintf("after one more pass: accounted size %d != sum of live entries %d", acc, live)
		}
		c.Release()
		cl.ReleaseBuckets()
		cl.CleanEmptyGenerations()
		if acc := cl.VerifAccountedSize(); bad == "" && acc != 0 {
			bad = fmt.Sprintf("%d bytes still accounted after the only cache was released", acc)
		}
		w.Count("shrink_histories", 1)
		if after*10 <= before {
			w.Count("shrink_histories_with_map_rebuild_condition", 1)
		}
		if bad != "" {
			w.Violation("C18:shrink:"+errSig(bad), map[string]any{"diff": bad, "case": desc})
			continue
		}
		w.Held(fmt.Sprintf("shrink|n%d|k%d|keep%d|%v", n/100, k, keep/5, modes), before >= 200 && after*10 <= before)
	}
}

// ---------- (A) management, exhaustive over assignments

func c18Management(w *h.W, part int) {
	nparts := 3
	if !w.Quick() {
		nparts = 24
	}
	idx := 0
	for n := 1; n <= 6; n++ {
		total := 1
		for i := 0; i < n; i++ {
			total *= 3
		}
		for code := 0; code < total; code++ {
			idx++
			if idx%nparts != part%nparts {
				continue
			}
			assign := make([]int, n) // 0 live, 1 released in round 1, 2 released in round 2
			c := code
			nLive, nRel := 0, 0
			for i := 0; i < n; i++ {
				assign[i] = c % 3
				c /= 3
				if assign[i] == 0 {
					nLive++
				} else {
					nRel++
				}
			}
			if !w.Begin(map[string]any{"part": "management", "caches": n, "assignment(0=live,1=released r1,2=released r2)": assign}) {
				continue
			}
			const limit = 40000
			cl := cache.NewCleaner(limit, nil)
			caches := make([]*cache.Cache[*c18Val], n)
			for i := range caches {
				caches[i] = cache.NewCache[*c18Val](cl, nil)
				for k := 0; k < 8; k++ {
					key := uint32(k)
					caches[i].Get(key, func() (*c18Val, int) { return &c18Val{cache: i, key: key}, 3000 })
				}
			}
			bad := ""
			for round := 1; round <= 2 && bad == ""; round++ {
				for i, a := range assign {
					if a == round {
						caches[i].Release()
					}
				}
				cl.ReleaseBuckets()
				for i, a := range assign {
					if (a == 0 || a > round) && !cl.VerifManages(caches[i]) {
						bad = fmt.Sprintf("after ReleaseBuckets of round %d the live cache #%d is no longer managed by the cleaner (managed buckets: %d)", round, i, cl.VerifBucketsCount())
					}
				}
			}
			if bad == "" {
				// accounting: cleaner's view = sum over live caches
				var live uint64
				for i, a := range assign {
					if a == 0 {
						_, _, sz := caches[i].VerifLive()
						live += sz
					}
				}
				if acc := cl.VerifAccountedSize(); acc != live {
					bad = fmt.Sprintf("accounted size %d != sum of live entries %d", acc, live)
				}
			}
			if bad == "" {
				// more data into the live caches, then one cleaning pass without concurrent lookups
				for i, a := range assign {
					if a == 0 {
						for k := 100; k < 130; k++ {
							key := uint32(k)
							caches[i].Get(key, func() (*c18Val, int) { return &c18Val{cache: i, key: key}, 3000 })
						}
					}
				}
				cl.Rotate()
				cl.Cleanup(&cache.CleanStat{})
				if acc := cl.VerifAccountedSize(); acc > limit {
					bad = fmt.Sprintf("after Rotate+Cleanup the accounted size is %d > limit %d", acc, limit)
				}
			}
			w.Count("management_assignments", 1)
			if bad != "" {
				w.Violation("C18:management", map[string]any{"diff": bad, "assignment": assign})
				continue
			}
			w.Held(fmt.Sprintf("mgmt|%v", assign), nLive > 0 && nRel > 0)
		}
	}
}

// ---------- (B) concurrent runs

type c18Load struct {
	cache int
	key   uint32
	state atomic.Int32
}

type c18Run struct {
	mu       sync.Mutex
	bad      string
	loads    sync.Map // inv -> *c18Load
	invSeq   atomic.Uint64
	waitsObs atomic.Int64
}

func (r *c18Run) fail(format string, args ...any) {
	r.mu.Lock()
	if r.bad == "" {
		r.bad = fmt.Sprintf(format, args...)
	}
	r.mu.Unlock()
}

type c18Cache struct {
	id      int
	c       *cache.Cache[*c18Val]
	use     sync.RWMutex // callers hold RLock during a lookup; release takes Lock (the fraction's useMu in seq-db)
	retired bool
}

func c18Concurrent(w *h.W, batch int) {
	r := w.Rng()
	runs := 3
	for ri := 0; ri < runs; ri++ {
		rr := r.Fork()
		callers := rr.Range(2, 8)
		nCaches := rr.Range(1, 5)
		limit := uint64(h.Pick(rr, []int{0, 20000, 60000, 400000}))
		ops := 1500
		if !w.Quick() {
			ops = 6000
		}
		keys := uint32(rr.Range(3, 40))
		// wide runs: hundreds of small entries per cache, a tiny limit and a maintenance loop that comes round only every few
		// milliseconds, so that one cleaning pass empties a cache that had grown past 200 entries (the map is rebuilt then)
		// while slow loaders are in flight
		wide := ri == 2
		if wide {
			keys = uint32(rr.Range(400, 1500))
			limit = uint64(h.Pick(rr, []int{2000, 6000}))
			nCaches = rr.Range(1, 2)
			callers = rr.Range(4, 8)
			ops *= 2
		}
		procs := h.Pick(rr, []int{2, 4, 16})
		desc := map[string]any{"part": "concurrent", "callers": callers, "caches": nCaches, "limit": limit, "ops_per_caller": ops, "keys": keys, "wide": wide, "gomaxprocs": procs, "delay_seed": rr.U64()}
		if !w.Begin(desc) {
			continue
		}
		prev := runtime.GOMAXPROCS(procs)
		ctl := &hk.Ctl{Seed: desc["delay_seed"].(uint64), Delay: map[string]bool{"*": true}, MaxSleep: 100 * time.Microsecond}
		if wide {
			ctl.MaxSleep = 15 * time.Microsecond
		}
		hk.Install(ctl)
		run := &c18Run{}
		cl := cache.NewCleaner(limit, nil)
		var cachesMu sync.RWMutex
		var caches []*c18Cache
		nextID := 0
		addCache := func() {
			cachesMu.Lock()
			caches = append(caches, &c18Cache{id: nextID, c: cache.NewCache[*c18Val](cl, nil)})
			nextID++
			cachesMu.Unlock()
		}
		for i := 0; i < nCaches; i++ {
			addCache()
		}
		var world sync.RWMutex // quiescent barrier: workers RLock per operation, the checker Locks
		var wg sync.WaitGroup
		var stop atomic.Bool
		var gets, errsSeen, panicsSeen, cleanups, releases, barriers atomic.Int64

		// maintenance goroutine
		wg.Add(1)
		mr := rr.Fork()
		go func() {
			defer wg.Done()
			for i := 0; !stop.Load(); i++ {
				world.RLock()
				cl.Rotate()
				if cl.Cleanup(&cache.CleanStat{}) {
					cleanups.Add(1)
				}
				if i%7 == 0 {
					cl.CleanEmptyGenerations()
					if cl.ReleaseBuckets() > 0 {
						releases.Add(1)
					}
					// management monitor: every unreleased cache is still managed
					cachesMu.RLock()
					for _, c := range caches {
						c.use.RLock()
						if !c.retired && !cl.VerifManages(c.c) {
							run.fail("live cache #%d is not managed by the cleaner after ReleaseBuckets", c.id)
						}
						c.use.RUnlock()
					}
					cachesMu.RUnlock()
				}
				world.RUnlock()
				if wide {
					time.Sleep(time.Duration(8000+mr.Intn(12000)) * time.Microsecond)
				} else if mr.Chance(1, 3) {
					runtime.Gosched()
				} else {
					time.Sleep(time.Duration(mr.Intn(300)) * time.Microsecond)
				}
			}
		}()

		var callersDone atomic.Int64
		caller := func(id int, cr *h.Rng) {
			defer wg.Done()
			defer callersDone.Add(1)
			for op := 0; op < ops && !stop.Load(); op++ {
				world.RLock()
				cachesMu.RLock()
				cc := caches[cr.Intn(len(caches))]
				cachesMu.RUnlock()
				cc.use.RLock()
				if cc.retired {
					cc.use.RUnlock()
					world.RUnlock()
					continue
				}
				key := uint32(cr.Intn(int(keys)))
				mode := cr.Intn(20) // 0: error, 1: panic, else ok
				useErrAPI := cr.Bool()
				if !useErrAPI && mode == 0 {
					mode = 2 // Get has no error channel
				}
				size := cr.Range(100, 4000)
				slow := false
				if wide {
					size = cr.Range(8, 64)
					slow = cr.Chance(1, 3)
				}
				var myInv uint64
				var myErr error
				var myPanic any
				loader := func() (*c18Val, int, error) {
					inv := run.invSeq.Add(1)
					myInv = inv
					ld := &c18Load{cache: cc.id, key: key}
					run.loads.Store(inv, ld)
					v := &c18Val{cache: cc.id, key: key, inv: inv}
					runtime.Gosched() // a waiter must never see the value before the loader returned
					if slow {
						time.Sleep(time.Duration(200+inv%7*200) * time.Microsecond) // long enough to be in flight across a cleaning pass
					}
					switch mode {
					case 0:
						myErr = fmt.Errorf("load %d failed", inv)
						ld.state.Store(loadErr)
						return nil, 0, myErr
					case 1:
						myPanic = fmt.Sprintf("load %d panicked", inv)
						ld.state.Store(loadPanic)
						panic(myPanic)
					}
					v.sum = c18Sum(cc.id, key, inv)
					ld.state.Store(loadOK)
					return v, size, nil
				}
				var v *c18Val
				var err error
				var pv any
				func() {
					defer func() { pv = recover() }()
					if useErrAPI {
						v, err = cc.c.GetWithError(key, loader)
					} else {
						v = cc.c.Get(key, func() (*c18Val, int) { x, s, _ := loader(); return x, s })
					}
				}()
				gets.Add(1)
				switch {
				case pv != nil:
					panicsSeen.Add(1)
					if myPanic == nil || pv != myPanic {
						run.fail("caller %d got panic %v, but its own loader did not raise it (own=%v)", id, pv, myPanic)
					}
				case err != nil:
					errsSeen.Add(1)
					if myErr == nil || !errors.Is(err, myErr) {
						run.fail("caller %d got error %v which is not the error of its own loader (%v)", id, err, myErr)
					}
				default:
					if myInv != 0 && mode == 1 {
						run.fail("caller %d: loader panicked but the call returned normally", id)
					}
					if v == nil {
						run.fail("cache %d key %d: nil value returned (own load inv=%d mode=%d)", cc.id, key, myInv, mode)
						break
					}
					if v.cache != cc.id || v.key != key {
						run.fail("cache %d key %d: got the value of cache %d key %d", cc.id, key, v.cache, v.key)
					}
					if v.sum != c18Sum(v.cache, v.key, v.inv) {
						run.fail("cache %d key %d: half-built value returned (inv %d)", cc.id, key, v.inv)
					}
					if ld, ok := run.loads.Load(v.inv); !ok {
						run.fail("value of unknown load %d", v.inv)
					} else if st := ld.(*c18Load).state.Load(); st != loadOK {
						run.fail("cache %d key %d: got a value of load %d whose state is %d (not completed successfully)", cc.id, key, v.inv, st)
					}
					if myInv != 0 && mode > 1 && v.inv != myInv {
						run.fail("caller %d ran load %d itself but received the value of load %d", id, myInv, v.inv)
					}
					if myInv == 0 {
						run.waitsObs.Add(1)
					}
				}
				cc.use.RUnlock()
				world.RUnlock()
			}
		}
		chk := rr.Fork()
		callerRngs := make([]*h.Rng, callers)
		for i := range callerRngs {
			callerRngs[i] = rr.Fork()
		}
		for i := 0; i < callers; i++ {
			wg.Add(1)
			go caller(i, callerRngs[i])
		}
		// bounded progress: callers inside the cache must keep completing lookups (a waiter parked on a load that never
		// finishes would otherwise also freeze the barrier below)
		stopWatch := w.StallWatch("C18:stall", 30*time.Second, gets.Load, func() bool { return callersDone.Load() < int64(callers) }, desc)
		// checker: quiescent barriers + cache release/creation
		deadline := time.Now().Add(4 * time.Minute)
		for b := 0; ; b++ {
			time.Sleep(time.Duration(chk.Range(1, 6)) * time.Millisecond)
			world.Lock()
			barriers.Add(1)
			var live uint64
			loading := 0
			cachesMu.RLock()
			for _, c := range caches {
				if !c.retired {
					_, l, sz := c.c.VerifLive()
					live += sz
					loading += l
				}
			}
			cachesMu.RUnlock()
			acc := cl.VerifAccountedSize()
			if loading != 0 {
				run.fail("barrier %d: %d entries still loading although every caller is parked", b, loading)
			} else if acc != live {
				run.fail("barrier %d: accounted size %d != sum of live entries %d", b, acc, live)
			}
			if limit > 0 {
				// a cleaning pass on its own, or after a rotation: either way it must end under the limit
				rotated := chk.Bool()
				if rotated {
					cl.Rotate()
				}
				cl.Cleanup(&cache.CleanStat{})
				if a2 := cl.VerifAccountedSize(); a2 > limit {
					run.fail("barrier %d: after a cleaning pass (rotation before it: %v) without concurrent lookups the accounted size is %d > limit %d", b, rotated, a2, limit)
				}
			}
			// retire one cache / create a new one now and then
			if chk.Chance(1, 3) {
				cachesMu.RLock()
				var liveC []*c18Cache
				for _, c := range caches {
					if !c.retired {
						liveC = append(liveC, c)
					}
				}
				cachesMu.RUnlock()
				if len(liveC) > 1 {
					c := h.Pick(chk, liveC)
					c.use.Lock()
					c.retired = true
					c.c.Release()
					c.use.Unlock()
				}
			}
			world.Unlock()
			// a new cache now and then, created while callers and the maintenance goroutine are running (as a new fraction does)
			if chk.Chance(1, 6) {
				world.RLock()
				addCache()
				world.RUnlock()
			}
			done := callersDone.Load() >= int64(callers)
			run.mu.Lock()
			failed := run.bad != ""
			run.mu.Unlock()
			if done || failed || time.Now().After(deadline) {
				break
			}
		}
		stop.Store(true)
		wg.Wait()
		stopWatch()
		hk.Uninstall()
		runtime.GOMAXPROCS(prev)
		hits := ctl.Counts()
		for p, n := range hits {
			w.Count("hook:"+p, n)
		}
		w.Count("gets", gets.Load())
		w.Count("errors_delivered", errsSeen.Load())
		w.Count("panics_delivered", panicsSeen.Load())
		w.Count("cleanups", cleanups.Load())
		w.Count("bucket_releases", releases.Load())
		w.Count("barriers", barriers.Load())
		w.Count("hits_or_waits_on_others_load", run.waitsObs.Load())
		if run.bad != "" {
			w.Violation("C18:"+errSig(run.bad), map[string]any{"diff": run.bad, "run": desc})
			continue
		}
		if callersDone.Load() < int64(callers) {
			w.Inconclusive("run did not finish its operations within the wall-clock guard")
			continue
		}
		nt := run.waitsObs.Load() > 0 && errsSeen.Load() > 0 && panicsSeen.Load() > 0 && (cleanups.Load() > 0 || limit == 0)
		if nt && w.WantSample() {
			w.Sample(map[string]any{"run": desc, "gets": gets.Load(), "cleanups": cleanups.Load(), "barriers": barriers.Load(), "hook_hits": hits})
		}
		lc := "nolimit"
		if limit > 0 {
			lc = fmt.Sprint(limit)
		}
		w.Held(fmt.Sprintf("conc|%d|%d|%s|%d|%d", callers, nCaches, lc, procs, desc["delay_seed"]), nt)
	}
}
