package props

import (
	"bytes"
	"encoding/gob"
	"encoding/json"
	"fmt"
	pb "github.com/ozontech/seq-db/pkg/storeapi"
	"os"
	"sort"
	"strings"
	"sync"
	"time"

	"verif/internal/h"
	"verif/internal/hk"
	"verif/internal/model"
	"verif/internal/sdb"
)

// The "store" phase is one process lifetime of a crash/restart scenario: it opens the real store on a directory
// (= restart), installs the hook controller (event log, crash point, fault point), runs a list of steps and reports
// what it observed as JSON lines. Crash points end the process with os.Exit from inside the hook.

type phaseOpt struct {
	FracSize      uint64 `json:"frac_size,omitempty"`
	TotalSize     uint64 `json:"total_size,omitempty"`
	CacheSize     uint64 `json:"cache_size,omitempty"`
	MaintenanceMs int    `json:"maintenance_ms,omitempty"`
	SkipSortDocs  bool   `json:"skip_sort_docs,omitempty"`
	DocBlockSize  int    `json:"doc_block_size,omitempty"`
	FracsPerIter  int    `json:"fracs_per_iter,omitempty"`
}

func (o phaseOpt) sdb() sdb.Opt {
	return sdb.Opt{Mapping: StoreMapping(), FracSize: o.FracSize, TotalSize: o.TotalSize, CacheSize: o.CacheSize, MaintenanceDelay: time.Duration(o.MaintenanceMs) * time.Millisecond,
		SkipSortDocs: o.SkipSortDocs, DocBlockSize: o.DocBlockSize, FracsPerIter: o.FracsPerIter}
}

type phaseStep struct {
	Op   string `json:"op"`             // verify | bulk | seal | stop | async_start | async_wait | sleep_maint | snapshot
	Bulk int    `json:"bulk,omitempty"` // bulk id (file bulk-<id>.gob in the spec dir)
	Arg  string `json:"arg,omitempty"`
	N    int    `json:"n,omitempty"`
}

type phaseSpec struct {
	Dir        string         `json:"dir"`  // store data directory
	Work       string         `json:"work"` // directory with bulk files, event log and output
	Opt        phaseOpt       `json:"opt"`
	Known      []int          `json:"known"` // bulks the verify step knows about
	Steps      []phaseStep    `json:"steps"`
	CrashPoint string         `json:"crash_point,omitempty"`
	CrashAt    int64          `json:"crash_at,omitempty"`
	FaultPoint string         `json:"fault_point,omitempty"`
	FaultAt    int64          `json:"fault_at,omitempty"`
	SlowPoints map[string]int `json:"slow_points,omitempty"` // hook point -> upper bound (ms) of a seeded sleep at every hit
	HoldPoint  string         `json:"hold_point,omitempty"`
	HoldAt     int64          `json:"hold_at,omitempty"`
	DelaySeed  uint64         `json:"delay_seed,omitempty"`
	LogPoints  bool           `json:"log_points,omitempty"`
	Out        string         `json:"out"`
	Events     string         `json:"events"`
}

type bulkVerify struct {
	Bulk          int      `json:"bulk"`
	N             int      `json:"n"`
	FetchOK       int      `json:"fetch_ok"`
	FetchAbsent   int      `json:"fetch_absent"`
	FetchWrong    []string `json:"fetch_wrong,omitempty"`
	SearchPresent int      `json:"search_present"`
	TokenMissing  []string `json:"token_missing,omitempty"`
	Hints         []string `json:"hints,omitempty"` // distinct fraction names serving the bulk
	Err           string   `json:"err,omitempty"`
}

type phaseEvent struct {
	Ev      string           `json:"ev"`
	Bulk    int              `json:"bulk,omitempty"`
	Err     string           `json:"err,omitempty"`
	Verify  []bulkVerify     `json:"verify,omitempty"`
	Foreign []string         `json:"foreign,omitempty"`
	Fracs   []string         `json:"fracs,omitempty"`
	Arg     string           `json:"arg,omitempty"`
	Counts  map[string]int64 `json:"counts,omitempty"`
}

func writeBulkFile(work string, id int, docs []*model.Doc) error {
	var b bytes.Buffer
	if err := gob.NewEncoder(&b).Encode(docs); err != nil {
		return err
	}
	return os.WriteFile(fmt.Sprintf("%s/bulk-%d.gob", work, id), b.Bytes(), 0o644)
}

func readBulkFile(work string, id int) ([]*model.Doc, error) {
	b, err := os.ReadFile(fmt.Sprintf("%s/bulk-%d.gob", work, id))
	if err != nil {
		return nil, err
	}
	var docs []*model.Doc
	err = gob.NewDecoder(bytes.NewReader(b)).Decode(&docs)
	return docs, err
}

func init() {
	h.Phases["store"] = storePhase
}

func storePhase(args []string) int {
	if len(args) != 1 {
		return 3
	}
	sb, err := os.ReadFile(args[0])
	if err != nil {
		fmt.Fprintln(os.Stderr, err)
		return 3
	}
	var spec phaseSpec
	if err := json.Unmarshal(sb, &spec); err != nil {
		fmt.Fprintln(os.Stderr, err)
		return 3
	}
	out, err := os.OpenFile(spec.Out, os.O_CREATE|os.O_WRONLY|os.O_APPEND, 0o644)
	if err != nil {
		return 3
	}
	emit := func(e phaseEvent) {
		b, _ := json.Marshal(e)
		out.Write(append(b, '\n'))
	}
	evf, _ := os.OpenFile(spec.Events, os.O_CREATE|os.O_WRONLY|os.O_APPEND, 0o644)
	ctl := &hk.Ctl{Seed: spec.DelaySeed, Events: evf, CrashPoint: spec.CrashPoint, CrashAt: spec.CrashAt, FaultPoint: spec.FaultPoint, FaultAt: spec.FaultAt, HoldPoint: spec.HoldPoint, HoldAt: spec.HoldAt, Held: make(chan struct{})}
	if spec.LogPoints {
		ctl.LogPoints = map[string]bool{"*": true}
	}
	if spec.DelaySeed != 0 {
		ctl.Delay = map[string]bool{"*": true}
	}
	if len(spec.SlowPoints) > 0 {
		if ctl.Delay == nil {
			ctl.Delay = map[string]bool{}
		}
		ctl.Long = map[string]time.Duration{}
		for p, ms := range spec.SlowPoints {
			ctl.Delay[p] = true
			ctl.Long[p] = time.Duration(ms) * time.Millisecond
		}
		if ctl.Seed == 0 {
			ctl.Seed = 0x5eed
		}
	}
	hk.Install(ctl)
	ctl.Log("phase start")
	st, err := sdb.Open(spec.Dir, spec.Opt.sdb())
	if err != nil {
		emit(phaseEvent{Ev: "open-error", Err: err.Error()})
		return 4
	}
	emit(phaseEvent{Ev: "ready", Fracs: fracNames(st)})
	for _, step := range spec.Steps {
		switch step.Op {
		case "verify":
			emit(phaseVerify(st, spec))
		case "bulk":
			docs, err := readBulkFile(spec.Work, step.Bulk)
			if err != nil {
				emit(phaseEvent{Ev: "error", Err: err.Error()})
				return 3
			}
			ctl.Log("submit %d", step.Bulk)
			emit(phaseEvent{Ev: "submit", Bulk: step.Bulk})
			if err := st.Bulk(docs); err != nil {
				ctl.Log("bulk-error %d", step.Bulk)
				emit(phaseEvent{Ev: "bulk-error", Bulk: step.Bulk, Err: err.Error()})
				continue
			}
			ctl.Log("ack %d", step.Bulk)
			emit(phaseEvent{Ev: "ack", Bulk: step.Bulk})
		case "bulk_par":
			// bulks Bulk..Bulk+N-1 submitted concurrently (group commit of the file writers)
			var pwg sync.WaitGroup
			var loaded [][]*model.Doc
			for k := step.Bulk; k < step.Bulk+step.N; k++ {
				docs, err := readBulkFile(spec.Work, k)
				if err != nil {
					emit(phaseEvent{Ev: "error", Err: err.Error()})
					return 3
				}
				loaded = append(loaded, docs)
			}
			gate := make(chan struct{})
			for k := step.Bulk; k < step.Bulk+step.N; k++ {
				docs := loaded[k-step.Bulk]
				pwg.Add(1)
				go func(k int) {
					defer pwg.Done()
					<-gate
					ctl.Log("submit %d", k)
					emit(phaseEvent{Ev: "submit", Bulk: k})
					if err := st.Bulk(docs); err != nil {
						ctl.Log("bulk-error %d", k)
						emit(phaseEvent{Ev: "bulk-error", Bulk: k, Err: err.Error()})
						return
					}
					ctl.Log("ack %d", k)
					emit(phaseEvent{Ev: "ack", Bulk: k})
				}(k)
			}
			close(gate)
			pwg.Wait()
		case "seal":
			st.WaitIdle()
			ctl.Log("seal begin")
			st.S.SealAll()
			ctl.Log("seal end")
			emit(phaseEvent{Ev: "sealed", Fracs: fracNames(st)})
		case "wait_idle":
			st.WaitIdle()
		case "sleep_maint":
			// let the maintenance loop run N ticks worth of wall time (logical effects are read from the fraction list afterwards)
			time.Sleep(time.Duration(step.N) * time.Millisecond)
			emit(phaseEvent{Ev: "fracs", Fracs: fracNames(st)})
		case "async_start", "async_wait", "sync_search":
			var ar asyncReq
			if err := json.Unmarshal([]byte(step.Arg), &ar); err != nil {
				emit(phaseEvent{Ev: "error", Err: err.Error()})
				return 3
			}
			switch step.Op {
			case "async_start":
				ctl.Log("async start")
				if err := asyncStart(st, ar); err != nil {
					emit(phaseEvent{Ev: "async-start-error", Err: err.Error()})
				} else {
					emit(phaseEvent{Ev: "async-started", Fracs: fracNames(st)})
				}
			case "async_wait":
				d := asyncWait(st, ar.ID)
				b, _ := json.Marshal(d)
				emit(phaseEvent{Ev: "async-result", Arg: string(b)})
			case "sync_search":
				d := syncDigest(st, ar)
				b, _ := json.Marshal(d)
				emit(phaseEvent{Ev: "sync-result", Arg: string(b)})
			}
		case "pace":
			// pacing only (not a verdict): keeps the ingest rate per maintenance tick in the regime the retention limit is configured for
			time.Sleep(time.Duration(step.N) * time.Millisecond)
		case "settle":
			// bounded polling on a logical condition: the fraction list stopped changing (start-up maintenance pass and its deletions are over)
			prev, same := "", 0
			for i := 0; i < 600 && same < 6; i++ {
				cur := strings.Join(fracNames(st), ",")
				if cur == prev {
					same++
				} else {
					prev, same = cur, 0
				}
				time.Sleep(4 * time.Millisecond)
			}
			emit(phaseEvent{Ev: "fracs", Fracs: fracNames(st)})
		case "fracs":
			emit(phaseEvent{Ev: "fracs", Fracs: fracNames(st)})
		case "stop":
			st.Stop()
			emit(phaseEvent{Ev: "stopped"})
		case "wait_hold":
			// logical condition (the frozen worker reached its point); the bound only keeps a never-reached point from hanging the phase
			select {
			case <-ctl.Held:
				emit(phaseEvent{Ev: "held"})
			case <-time.After(20 * time.Second):
				emit(phaseEvent{Ev: "hold-not-reached"})
			}
		case "crash":
			ctl.Log("crash step")
			os.Exit(77)
		}
	}
	emit(phaseEvent{Ev: "done", Counts: ctl.Counts()})
	return 0
}

func fracNames(st *sdb.Store) []string {
	var out []string
	for _, f := range st.S.FracManager.GetAllFracs() {
		info := f.Info()
		out = append(out, fmt.Sprintf("%s:%d", info.Name(), info.DocsTotal))
	}
	return out
}

func phaseVerify(st *sdb.Store, spec phaseSpec) phaseEvent {
	ev := phaseEvent{Ev: "verify"}
	known := map[model.ID]bool{}
	bulks := map[int][]*model.Doc{}
	total := 0
	for _, id := range spec.Known {
		docs, err := readBulkFile(spec.Work, id)
		if err != nil {
			ev.Err = err.Error()
			return ev
		}
		bulks[id] = docs
		total += len(docs)
		for _, d := range docs {
			known[d.ID] = true
		}
	}
	st.WaitIdle()
	present := map[model.ID]string{}
	res, err := st.Search(sdb.SearchReq{Query: "_all_:*", From: 0, To: 1 << 62, Size: total + 1000})
	if err != nil {
		ev.Err = "search _all_: " + err.Error()
	} else {
		for i, id := range res.IDs {
			present[id] = res.Hints[i]
			if !known[id] {
				ev.Foreign = append(ev.Foreign, id.String())
			}
		}
	}
	for _, bid := range spec.Known {
		docs := bulks[bid]
		bv := bulkVerify{Bulk: bid, N: len(docs)}
		ids := make([]model.ID, len(docs))
		hints := map[string]bool{}
		for i, d := range docs {
			ids[i] = d.ID
			if hn, ok := present[d.ID]; ok {
				bv.SearchPresent++
				hints[hn] = true
			}
		}
		for hn := range hints {
			bv.Hints = append(bv.Hints, hn)
		}
		sort.Strings(bv.Hints)
		got, err := st.Fetch(ids, nil, nil)
		if err != nil {
			bv.Err = "fetch: " + err.Error()
		} else if len(got) != len(ids) {
			bv.Err = fmt.Sprintf("fetch returned %d entries for %d ids", len(got), len(ids))
		} else {
			for i, d := range docs {
				switch {
				case got[i].ID != d.ID:
					bv.FetchWrong = append(bv.FetchWrong, fmt.Sprintf("entry %d carries ID %s, requested %s", i, got[i].ID, d.ID))
				case len(got[i].Data) == 0:
					bv.FetchAbsent++
				case bytes.Equal(got[i].Data, d.Body):
					bv.FetchOK++
				default:
					if len(bv.FetchWrong) < 4 {
						bv.FetchWrong = append(bv.FetchWrong, fmt.Sprintf("%s: got %d bytes %.60q, ingested %d bytes %.60q", d.ID, len(got[i].Data), got[i].Data, len(d.Body), d.Body))
					}
				}
			}
		}
		// every document must be findable by each of its indexed tokens (sampled: up to 6 distinct tokens per bulk)
		type tk struct{ f, v string }
		byTok := map[tk][]model.ID{}
		for _, d := range docs {
			for _, t := range d.Toks {
				byTok[tk{t.F, t.V}] = append(byTok[tk{t.F, t.V}], d.ID)
			}
		}
		var toks []tk
		for t := range byTok {
			toks = append(toks, t)
		}
		sort.Slice(toks, func(i, j int) bool { return toks[i].f+"\x00"+toks[i].v < toks[j].f+"\x00"+toks[j].v })
		step := max(1, len(toks)/6)
		for i := 0; i < len(toks); i += step {
			t := toks[i]
			q := (&model.Q{Op: "lit", Field: t.f, Pat: t.v}).Legacy(model.Plain)
			r, err := st.Search(sdb.SearchReq{Query: q, From: 0, To: 1 << 62, Size: total + 1000})
			if err != nil {
				bv.Err = "search " + q + ": " + err.Error()
				break
			}
			found := map[model.ID]bool{}
			for _, id := range r.IDs {
				found[id] = true
			}
			for _, id := range byTok[t] {
				if !found[id] && len(bv.TokenMissing) < 6 {
					bv.TokenMissing = append(bv.TokenMissing, fmt.Sprintf("%s not found by %s", id, q))
				}
			}
		}
		ev.Verify = append(ev.Verify, bv)
	}
	ev.Fracs = fracNames(st)
	return ev
}

func readPhaseOut(path string) []phaseEvent {
	b, err := os.ReadFile(path)
	if err != nil {
		return nil
	}
	var out []phaseEvent
	for _, ln := range strings.Split(string(b), "\n") {
		if ln == "" {
			continue
		}
		var e phaseEvent
		if json.Unmarshal([]byte(ln), &e) == nil {
			out = append(out, e)
		}
	}
	return out
}

// ---- event log (written by the hook controller)

type hookEvent struct {
	Seq   int64
	Kind  string // file | at | crash | fault | submit | ack | ...
	Point string
	File  string
	A, B  int64
	N     int64
}

func readEvents(path string) []hookEvent {
	b, err := os.ReadFile(path)
	if err != nil {
		return nil
	}
	var out []hookEvent
	for _, ln := range strings.Split(string(b), "\n") {
		f := strings.Fields(ln)
		if len(f) < 2 {
			continue
		}
		var e hookEvent
		fmt.Sscan(f[0], &e.Seq)
		e.Kind = f[1]
		switch e.Kind {
		case "file":
			if len(f) >= 6 {
				e.Point, e.File = f[2], f[3]
				fmt.Sscan(f[4], &e.A)
				fmt.Sscan(f[5], &e.B)
			}
		case "at", "crash", "fault":
			if len(f) >= 4 {
				e.Point = f[2]
				fmt.Sscan(f[3], &e.N)
			}
		case "submit", "ack", "bulk-error":
			if len(f) >= 3 {
				fmt.Sscan(f[2], &e.N)
			}
		default:
			e.Point = strings.Join(f[2:], " ")
		}
		out = append(out, e)
	}
	return out
}

// ---- asynchronous search steps (C19)

type asyncReq struct {
	ID       string         `json:"id"`
	Query    string         `json:"query"`
	From     uint64         `json:"from"`
	To       uint64         `json:"to"`
	Asc      bool           `json:"asc"`
	Interval uint64         `json:"interval"`
	Aggs     []model.AggReq `json:"aggs"`
	Size     int            `json:"size"`
}

type binDigest struct {
	Total     int64     `json:"total"`
	Sum       float64   `json:"sum"`
	Min       float64   `json:"min"`
	Max       float64   `json:"max"`
	NotExists int64     `json:"not_exists"`
	Samples   []float64 `json:"samples,omitempty"`
}

type aggDigest struct {
	Bins      map[string]binDigest `json:"bins"`
	NotExists int64                `json:"not_exists"`
}

type searchDigest struct {
	Done  bool              `json:"done"`
	Err   string            `json:"err,omitempty"`
	IDs   []model.ID        `json:"ids"`
	Hist  map[uint64]uint64 `json:"hist"`
	Aggs  []aggDigest       `json:"aggs"`
	Polls int               `json:"polls,omitempty"`
}

func digestResponse(resp *pb.SearchResponse) searchDigest {
	d := searchDigest{Hist: map[uint64]uint64{}}
	for _, is := range resp.IdSources {
		d.IDs = append(d.IDs, model.ID{MID: is.Id.Mid, RID: is.Id.Rid})
	}
	for k, v := range resp.Histogram {
		if v != 0 {
			d.Hist[k] = v
		}
	}
	for _, a := range resp.Aggs {
		ad := aggDigest{Bins: map[string]binDigest{}, NotExists: a.NotExists}
		for _, b := range a.Timeseries {
			s := append([]float64{}, b.Hist.Samples...)
			sort.Float64s(s)
			ad.Bins[fmt.Sprintf("%d|%s", b.Ts.AsTime().UnixMilli(), b.Label)] = binDigest{Total: b.Hist.Total, Sum: b.Hist.Sum, Min: b.Hist.Min, Max: b.Hist.Max, NotExists: b.Hist.NotExists, Samples: s}
		}
		d.Aggs = append(d.Aggs, ad)
	}
	return d
}

func asyncStart(st *sdb.Store, r asyncReq) error {
	ord := pb.Order_ORDER_DESC
	if r.Asc {
		ord = pb.Order_ORDER_ASC
	}
	var aggs []*pb.AggQuery
	for _, a := range r.Aggs {
		aggs = append(aggs, aggToPB(a))
	}
	_, err := st.S.GrpcV1().StartAsyncSearch(sdb.Ctx(true), &pb.StartAsyncSearchRequest{SearchId: r.ID, Query: r.Query, From: int64(r.From), To: int64(r.To),
		Aggs: aggs, HistogramInterval: int64(r.Interval), Order: ord})
	return err
}

// asyncWait polls until the search reports done (logical bound on polls) and digests the result.
func asyncWait(st *sdb.Store, id string) searchDigest {
	for polls := 1; polls <= 3000; polls++ {
		resp, err := st.S.GrpcV1().FetchAsyncSearchResult(sdb.Ctx(true), &pb.FetchAsyncSearchResultRequest{SearchId: id, WithDocs: true, Size: 1 << 30})
		if err != nil {
			return searchDigest{Err: err.Error(), Polls: polls}
		}
		if resp.Done {
			d := digestResponse(resp.Response)
			d.Done, d.Polls = true, polls
			return d
		}
		time.Sleep(2 * time.Millisecond)
	}
	return searchDigest{Err: "not done after 3000 polls", Polls: 3000}
}

func syncDigest(st *sdb.Store, r asyncReq) searchDigest {
	var aggs []*pb.AggQuery
	for _, a := range r.Aggs {
		aggs = append(aggs, aggToPB(a))
	}
	res, err := st.Search(sdb.SearchReq{Query: r.Query, SeqQL: true, From: r.From, To: r.To, Size: r.Size, Asc: r.Asc, Interval: r.Interval, Aggs: aggs})
	if err != nil {
		return searchDigest{Err: err.Error()}
	}
	d := digestResponse(res.Raw)
	d.Done = true
	return d
}
