package props

import (
	"encoding/json"
	"fmt"
	"sort"
	"time"

	"github.com/ozontech/seq-db/frac"
	"github.com/ozontech/seq-db/seq"
	"github.com/ozontech/seq-db/util"

	"verif/internal/gen"
	"verif/internal/h"
	"verif/internal/model"
	"verif/internal/sdb"
)

// C14 — time-range pruning never hides a document that lies in the requested range.

func init() {
	h.Register(&h.Prop{
		ID:    "C14",
		Level: "exploration",
		Rule: "parts: (a) util.Bitmask.HasBitsIn vs brute force for every size <= bound, every bit set (sampled above 12 bits), every [l,r]; " +
			"(b) seq.MIDsDistribution (direct and after a JSON round trip) for all from/to offsets and bucket sizes up to a bound, document sets and query intervals on/off bucket borders: soundness (a document in range => intersecting); " +
			"(c) frac.Info.BuildDistribution/IsIntersecting for seeded document-time sets 10 min..30 h before creation; " +
			"(d) end-to-end: real fractions with documents hours older than now, sealed, reloaded via index header and via .frac-cache, searched and fetched with such ranges vs the model. " +
			"case = one configuration (a,b,c) or one request (d); non-trivial = some interval holds a document and some does not; distinct = (part, size/bucket/offset class | form, request kind)",
		Assumptions: []string{"part (d) places the corpus relative to the wall clock (fraction creation time is read by seq-db); the base instant is part of the case description"},
		Batches:     tiered(240, 3840),
		Run:         runC14,
		Exhaustive:  func(string) bool { return false },
		Timeout:     timeoutFor(3*time.Minute, 40*time.Minute),
	})
}

func bruteHasBits(bits []bool, l, r int) bool {
	for i := l; i <= r && i < len(bits); i++ {
		if i >= 0 && bits[i] {
			return true
		}
	}
	return false
}

func runC14(w *h.W, batch int) {
	r := w.Rng()
	switch batch % 4 {
	case 0:
		c14Bitmask(w, r, batch/4)
	case 1:
		c14Distribution(w, r, batch/4)
	case 2:
		c14Info(w, r)
	case 3:
		c14EndToEnd(w, r, batch)
	}
}

func c14Bitmask(w *h.W, r *h.Rng, part int) {
	maxSize := 12
	if !w.Quick() {
		maxSize = 22
	}
	for size := 1; size <= maxSize; size++ {
		if size%3 != part%3 && !(w.Quick() && part == 0) {
			// spread sizes over the batches of this part in thorough tier; quick part 0 does all of them
			if !w.Quick() {
				continue
			}
		}
		if !w.Begin(map[string]any{"part": "bitmask", "size": size}) {
			continue
		}
		nsets := 1 << size
		exhaustive := size <= 12
		if !exhaustive {
			nsets = 6000
		}
		bad := ""
		checks := 0
		for s := 0; s < nsets && bad == ""; s++ {
			var set uint64 = uint64(s)
			if !exhaustive {
				set = r.U64() & (1<<size - 1)
				if r.Chance(1, 4) {
					set = uint64(1) << r.Intn(size) // single bit
				}
			}
			bm := util.NewBitmask(size)
			bits := make([]bool, size)
			for i := 0; i < size; i++ {
				if set>>i&1 == 1 {
					bm.Set(i, true)
					bits[i] = true
				}
			}
			for l := 0; l < size && bad == ""; l++ {
				for rr := l; rr < size; rr++ {
					checks++
					if got, want := bm.HasBitsIn(l, rr), bruteHasBits(bits, l, rr); got != want {
						bad = fmt.Sprintf("size=%d set=%b HasBitsIn(%d,%d)=%v brute=%v", size, set, l, rr, got, want)
						break
					}
				}
			}
			// round trip through the binary form
			lb := util.LoadBitmask(size, bm.GetBitmaskBinary())
			for i := 0; i < size && bad == ""; i++ {
				if lb.Get(i) != bits[i] {
					bad = fmt.Sprintf("size=%d set=%b LoadBitmask bit %d differs", size, set, i)
				}
			}
		}
		w.Count("bitmask_checks", int64(checks))
		if bad != "" {
			w.Violation("C14:bitmask-unsound", map[string]any{"diff": bad})
			continue
		}
		w.Held(fmt.Sprintf("bitmask|%d", size), size >= 2)
	}
}

func c14Distribution(w *h.W, r *h.Rng, part int) {
	base := time.UnixMilli(int64(gen.T0)).UTC()
	buckets := []time.Duration{time.Second, time.Minute, 7 * time.Second}
	maxSpan := 6
	if !w.Quick() {
		maxSpan = 18
	}
	offsets := []time.Duration{0, time.Millisecond, 999 * time.Millisecond}
	for _, bucket := range buckets {
		for span := 0; span <= maxSpan; span++ {
			for _, fo := range offsets {
				for _, to := range offsets {
					from := base.Add(fo)
					end := base.Add(time.Duration(span) * bucket).Add(to)
					if end.Before(from) {
						continue
					}
					desc := map[string]any{"part": "distribution", "bucket": bucket.String(), "span_buckets": span, "from_off": fo.String(), "to_off": to.String()}
					if !w.Begin(desc) {
						continue
					}
					bad := ""
					checks, hid, pruned := 0, 0, 0
					nsets := 40
					for s := 0; s < nsets && bad == ""; s++ {
						d := seq.NewMIDsDistribution(from, end, bucket)
						// documents: inside, on bucket borders, before from, after to
						var mids []seq.MID
						nd := r.Range(0, 5)
						for i := 0; i < nd; i++ {
							var t time.Time
							switch r.Intn(5) {
							case 0:
								t = from.Add(-time.Duration(r.Range(1, 3000)) * time.Millisecond)
							case 1:
								t = end.Add(time.Duration(r.Range(1, 3000)) * time.Millisecond)
							case 2:
								t = from.Add(time.Duration(r.Intn(span+1)) * bucket) // exactly on a bucket border
							case 3:
								t = from.Add(time.Duration(r.Intn(span+1))*bucket - time.Millisecond)
							default:
								t = from.Add(time.Duration(r.Intn(int((end.Sub(from)+1)/time.Millisecond)+1)) * time.Millisecond)
							}
							m := seq.MID(t.UnixMilli())
							mids = append(mids, m)
							d.Add(m)
						}
						// JSON round trip (persisted fraction info)
						var d2 seq.MIDsDistribution
						js, err := json.Marshal(d)
						if err != nil {
							bad = "marshal: " + err.Error()
							break
						}
						if err := json.Unmarshal(js, &d2); err != nil {
							bad = "unmarshal: " + err.Error()
							break
						}
						// query intervals around everything interesting
						var points []seq.MID
						for _, m := range mids {
							points = append(points, m-1, m, m+1)
						}
						for k := 0; k <= span+1; k++ {
							bt := seq.MID(from.Add(time.Duration(k) * bucket).UnixMilli())
							points = append(points, bt-1, bt, bt+1)
						}
						points = append(points, seq.MID(from.UnixMilli())-5000, seq.MID(end.UnixMilli())+5000, seq.MID(end.UnixMilli()), seq.MID(end.UnixMilli())+1)
						for _, a := range points {
							for _, b := range points {
								if a > b {
									continue
								}
								has := false
								for _, m := range mids {
									if m >= a && m <= b {
										has = true
										break
									}
								}
								checks++
								g1, g2 := d.IsIntersecting(a, b), d2.IsIntersecting(a, b)
								if has && (!g1 || !g2) {
									hid++
									bad = fmt.Sprintf("docs=%v query=[%d,%d] direct=%v after-json=%v (dist from=%d to=%d bucket=%s)", mids, a, b, g1, g2, from.UnixMilli(), end.UnixMilli(), bucket)
								}
								if !has && !g1 {
									pruned++
								}
								if bad != "" {
									break
								}
							}
							if bad != "" {
								break
							}
						}
					}
					w.Count("distribution_checks", int64(checks))
					w.Count("distribution_pruned", int64(pruned))
					if bad != "" {
						w.Violation("C14:distribution-hides-document", map[string]any{"diff": bad, "case": desc})
						continue
					}
					w.Held(fmt.Sprintf("dist|%s|%d|%s|%s", bucket, span, fo, to), pruned > 0)
				}
			}
		}
	}
}

func c14Info(w *h.W, r *h.Rng) {
	n := 150
	if !w.Quick() {
		n = 1500
	}
	for i := 0; i < n; i++ {
		cr := r.Fork()
		creation := int64(gen.T0) + int64(cr.Intn(1e9))
		spreadMin := h.Pick(cr, []int{5, 9, 10, 11, 60, 600, 1439, 1440, 1441, 1800})
		nd := cr.LogInt(1, 300)
		var ids []seq.ID
		info := frac.NewInfo("x", 0, 0)
		info.CreationTime = uint64(creation)
		info.From, info.To = ^seq.MID(0), 0
		var mids []seq.MID
		for j := 0; j < nd; j++ {
			back := int64(cr.Intn(spreadMin*60000 + 1))
			if cr.Chance(1, 10) {
				back = -int64(cr.Intn(600000)) // timestamps in the future relative to creation
			}
			m := seq.MID(creation - back)
			mids = append(mids, m)
			ids = append(ids, seq.ID{MID: m, RID: seq.RID(cr.U64())})
			info.From, info.To = min(info.From, m), max(info.To, m)
		}
		info.DocsTotal = uint32(nd)
		desc := map[string]any{"part": "info", "docs": nd, "spread_min": spreadMin, "creation": creation}
		if !w.Begin(desc) {
			continue
		}
		// the sealer passes the sorted IDs including the system ID at position 0
		all := append([]seq.ID{{MID: ^seq.MID(0), RID: ^seq.RID(0)}}, ids...)
		info.BuildDistribution(all)
		var info2 frac.Info
		info2.Load(info.Save())
		bad := ""
		pruned, checks := 0, 0
		for k := 0; k < 400 && bad == ""; k++ {
			var a, b seq.MID
			pick := func() seq.MID {
				m := h.Pick(cr, mids)
				switch cr.Intn(6) {
				case 0:
					return m
				case 1:
					return m - 1
				case 2:
					return m + 1
				case 3:
					return m - m%60000 // minute border
				case 4:
					return m - m%60000 + 59999
				default:
					return seq.MID(creation - int64(cr.Intn(40*3600*1000)))
				}
			}
			a, b = pick(), pick()
			if a > b {
				a, b = b, a
			}
			has := false
			for _, m := range mids {
				if m >= a && m <= b {
					has = true
					break
				}
			}
			checks++
			g1, g2 := info.IsIntersecting(a, b), info2.IsIntersecting(a, b)
			if has && (!g1 || !g2) {
				bad = fmt.Sprintf("query=[%d,%d] direct=%v reloaded=%v from=%d to=%d creation=%d", a, b, g1, g2, info.From, info.To, creation)
			}
			if !has && !g1 {
				pruned++
			}
		}
		w.Count("info_checks", int64(checks))
		w.Count("info_pruned", int64(pruned))
		if bad != "" {
			w.Violation("C14:info-hides-document", map[string]any{"diff": bad, "case": desc})
			continue
		}
		dist := "nodist"
		if info.Distribution != nil {
			dist = "dist"
		}
		w.Held(fmt.Sprintf("info|%d|%s", spreadMin, dist), pruned > 0)
	}
}

func c14EndToEnd(w *h.W, r *h.Rng, batch int) {
	nStores := 2
	for si := 0; si < nStores; si++ {
		cr := r.Fork()
		now := uint64(time.Now().UnixMilli())
		nFracs := cr.Range(1, 4)
		st, err := sdb.Open(w.Sub(fmt.Sprintf("s%d", si)), sdb.Opt{Mapping: StoreMapping(), FracsPerIter: h.Pick(cr, []int{1, 2, 100})})
		if err != nil {
			if w.Begin(map[string]any{"step": "open"}) {
				w.Violation("C14:store-did-not-start", map[string]any{"error": err.Error()})
			}
			continue
		}
		var all []*model.Doc
		vocab := map[string][]string{}
		var spreads []int
		var lerr error
		for f := 0; f < nFracs; f++ {
			spreadMin := h.Pick(cr, []int{3, 11, 60, 600, 1441, 1800})
			spreads = append(spreads, spreadMin)
			base := now - uint64(spreadMin)*60000 - uint64(cr.Intn(3600000))
			n := cr.LogInt(3, 200)
			if batch%3 == 0 && f == 0 {
				n = cr.Range(4500, 13000) // several ID blocks (4096 IDs each): the range-to-position narrowing crosses block borders
			}
			if batch%24 == 7 && si == 0 && f == 0 {
				// one fraction with a token of more than 64Ki postings (its posting list continues over several LID blocks):
				// the position narrowing of a range then starts in the first, a middle or the last block of the list
				sh := gen.MakeShape(cr, "hot-token", cr.Intn(4), fmt.Sprintf("b%ds%dhot", batch, si))
				moveToRecentPast(cr, sh.Corpus)
				seenHot := map[model.ID]bool{}
				for _, d := range all {
					seenHot[d.ID] = true
				}
				for _, d := range sh.Corpus.Docs {
					for seenHot[d.ID] {
						d.ID.RID++
					}
					seenHot[d.ID] = true
				}
				if err := ingest(st, sh.Corpus.Docs, cr, 4); err != nil {
					lerr = err
				}
				st.SealAll()
				all = append(all, sh.Corpus.Docs...)
				for k, v := range sh.Corpus.Vocab {
					vocab[k] = append(vocab[k], v...)
				}
				spreads = append(spreads, -1)
				continue
			}
			c := gen.MakeCorpus(cr, gen.CorpusOpt{N: n, Vocab: 4, MIDSpread: spreadMin * 60000 / 3, MaxToks: 2, BaseMID: base, Tag: fmt.Sprintf("b%ds%df%d", batch, si, f)})
			// clustered in a few minutes with long gaps: the occupancy map has holes
			for _, d := range c.Docs {
				if cr.Chance(2, 3) {
					d.ID.MID = base + uint64(cr.Intn(3))*uint64(spreadMin)*20000 + uint64(cr.Intn(30000))
				}
			}
			seen := map[model.ID]bool{}
			for _, d := range all {
				seen[d.ID] = true
			}
			for _, d := range c.Docs {
				for seen[d.ID] {
					d.ID.RID++
				}
				seen[d.ID] = true
			}
			if err := ingest(st, c.Docs, cr, 2); err != nil {
				lerr = err
			}
			if cr.Chance(1, 3) && len(c.Docs) >= 2 {
				// a partial re-delivery into the same active fraction: some stored documents again plus documents outside the
				// fraction's current time borders (newer and older), listed newest-first / oldest-first: the borders used for
				// pruning must follow
				lo, hi := c.Docs[0].ID.MID, c.Docs[0].ID.MID
				for _, d := range c.Docs {
					lo, hi = min(lo, d.ID.MID), max(hi, d.ID.MID)
				}
				extra := gen.MakeCorpus(cr, gen.CorpusOpt{N: cr.Range(1, 4), Vocab: 4, MIDSpread: 30000, MaxToks: 2, BaseMID: hi + 1 + uint64(cr.Intn(120000)), Tag: fmt.Sprintf("b%ds%df%dx", batch, si, f)})
				if cr.Bool() {
					extra = gen.MakeCorpus(cr, gen.CorpusOpt{N: cr.Range(1, 4), Vocab: 4, MIDSpread: 30000, MaxToks: 2, BaseMID: lo - 30001 - uint64(cr.Intn(120000)), Tag: fmt.Sprintf("b%ds%df%dy", batch, si, f)})
				}
				var fresh []*model.Doc
				for _, d := range extra.Docs {
					if !seen[d.ID] {
						seen[d.ID] = true
						fresh = append(fresh, d)
					}
				}
				sort.Slice(fresh, func(i, j int) bool { return fresh[j].ID.Less(fresh[i].ID) }) // newest first
				if cr.Bool() {
					sort.Slice(fresh, func(i, j int) bool { return fresh[i].ID.Less(fresh[j].ID) })
				}
				retry := append([]*model.Doc{}, c.Docs[:cr.Range(1, min(len(c.Docs), 3))]...)
				if cr.Bool() {
					retry = append(fresh, retry...)
				} else {
					retry = append(retry, fresh...)
				}
				st.WaitIdle()
				if err := st.Bulk(retry); err != nil {
					lerr = err
				}
				c.Docs = append(c.Docs, fresh...)
				for k, v := range extra.Vocab {
					c.Vocab[k] = append(c.Vocab[k], v...)
				}
				w.Count("partial_redeliveries", 1)
			}
			st.SealAll()
			all = append(all, c.Docs...)
			for k, v := range c.Vocab {
				vocab[k] = append(vocab[k], v...)
			}
		}
		if lerr != nil {
			if w.Begin(map[string]any{"step": "ingest"}) {
				w.Violation("C14:bulk-error", map[string]any{"error": lerr.Error()})
			}
			st.Stop()
			continue
		}
		corp := &gen.Corpus{Docs: all, Vocab: vocab, MinMID: ^uint64(0)}
		for _, d := range all {
			corp.MinMID, corp.MaxMID = min(corp.MinMID, d.ID.MID), max(corp.MaxMID, d.ID.MID)
		}
		bat := makeBattery(cr, corp, batteryOpt{Searches: 60, Fetches: 10, MaxDepth: 1})
		// add requests whose ends sit on minute borders
		for _, q := range bat {
			if q.Kind == "search" && cr.Bool() {
				d := h.Pick(cr, all)
				a := d.ID.MID - d.ID.MID%60000
				b := a + uint64(cr.Range(0, 3))*60000 + uint64(h.Pick(cr, []int{0, 59999, 60000}))
				if cr.Bool() {
					a -= uint64(cr.Range(1, 3)) * 60000
				}
				q.SC.From, q.SC.To = a, b
				q.Exp = model.Search(all, model.Req{Q: q.Q, From: a, To: b, Asc: q.SC.Asc, Limit: q.SC.Limit, Interval: q.SC.Interval})
				q.Aggs, q.ExpAggs = nil, nil
				q.Exp.Docs = nil
			}
		}
		hdesc := fmt.Sprintf("now=%d fracs=%d spreads_min=%v docs=%d", now, nFracs, spreads, len(all))
		withDist := 0
		for _, f := range st.S.FracManager.GetAllFracs() {
			if f.Info().Distribution != nil {
				withDist++
			}
		}
		w.Count("fractions_with_distribution", int64(withDist))
		w.Count("fractions", int64(nFracs))
		forms := []string{"sealed", "reloaded", "reloaded-frac-cache"}
		for _, form := range forms {
			switch form {
			case "reloaded":
				st.Stop()
				st, err = sdb.Open(st.Dir, st.Opt)
			case "reloaded-frac-cache":
				st.Stop()
				o2 := st.Opt
				o2.MaintenanceDelay = 5 * time.Millisecond
				var s2 *sdb.Store
				if s2, err = sdb.Open(st.Dir, o2); err == nil {
					waitFracCache(st.Dir)
					s2.Stop()
					st, err = sdb.Open(st.Dir, st.Opt)
				}
			}
			if err != nil {
				if w.Begin(map[string]any{"step": form}) {
					w.Violation("C14:store-did-not-start", map[string]any{"error": err.Error()})
				}
				st = nil
				break
			}
			for _, q := range bat {
				if !w.Begin(q.desc(form, hdesc)) {
					continue
				}
				class, diff := q.check(st)
				if class != "" {
					w.Violation("C14:"+class+":"+form, map[string]any{"diff": diff, "request": q.desc(form, hdesc)})
					continue
				}
				nt := withDist > 0 && q.nontrivial(len(all))
				if nt && w.WantSample() {
					w.Sample(q.desc(form, hdesc))
				}
				w.Held(fmt.Sprintf("e2e|%s|%s|dist%d", form, q.Kind, min(withDist, 2)), nt)
			}
		}
		if st != nil {
			st.Stop()
		}
	}
}
