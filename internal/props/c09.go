package props

import (
	"bytes"
	"context"
	"fmt"
	"strings"
	"sync"
	"sync/atomic"
	"time"

	"google.golang.org/grpc"
	"google.golang.org/protobuf/types/known/emptypb"

	"github.com/ozontech/seq-db/consts"
	"github.com/ozontech/seq-db/network/circuitbreaker"
	pb "github.com/ozontech/seq-db/pkg/storeapi"
	"github.com/ozontech/seq-db/proxy/bulk"
	"github.com/ozontech/seq-db/proxy/stores"

	"verif/internal/h"
)

// C09 — a bulk is acknowledged only when a full replica set holds it in every tier.

func init() {
	h.Register(&h.Prop{
		ID:    "C09",
		Level: "fault_enumeration",
		Rule: "case = (topology: 1..3 hot shards x 1..3 replicas, optional cold tier 1..2 x 1..2; script: outcome ok / error / timeout for the k-th call that reaches each host, k <= BulkMaxTries); " +
			"the real bulk.SeqDBClient runs over recording fake store clients; scripts are exhaustive over {ok,error} for the small topologies assigned to the batch and seeded beyond (incl. timeouts and a worker group with breakers that open); " +
			"offline oracle over the recorded call log: acknowledged => some hot shard has a successful call carrying exactly the request payload on every replica, the same in the cold tier when configured; no host sees more than BulkMaxTries calls; " +
			"non-trivial = the script holds both successes and failures and the client made >1 attempt; distinct = (topology, script)",
		Assumptions: []string{
			"the client shuffles shards with the global math/rand source: which hosts are reached is not replayable, the verdict is always computed from the calls actually recorded",
			"circuit breakers are process-global by name: ordinary workers use thresholds that never open, one worker group uses thresholds that do",
		},
		Batches: tiered(16, 256),
		Run:     runC09,
		Timeout: timeoutFor(3*time.Minute, 45*time.Minute),
	})
}

type c09Call struct {
	Host    string `json:"host"`
	K       int    `json:"k"` // k-th call to this host for this bulk
	Outcome string `json:"outcome"`
	Payload bool   `json:"payload_ok"`
	Seq     int64  `json:"seq"`
}

type c09Host struct {
	name   string
	script []string // outcome of the k-th call ("ok" when exhausted)
	mu     *sync.Mutex
	calls  *[]c09Call
	seq    *atomic.Int64
	n      int
	docs   []byte
	metas  []byte
	pb.StoreApiClient
}

func (f *c09Host) Bulk(ctx context.Context, in *pb.BulkRequest, _ ...grpc.CallOption) (*emptypb.Empty, error) {
	f.mu.Lock()
	k := f.n
	f.n++
	out := "ok"
	if k < len(f.script) {
		out = f.script[k]
	}
	payloadOK := bytes.Equal(in.Docs, f.docs) && bytes.Equal(in.Metas, f.metas)
	f.mu.Unlock()
	var err error
	switch out {
	case "err":
		err = fmt.Errorf("scripted failure of %s call %d", f.name, k)
	case "timeout":
		<-ctx.Done()
		err = ctx.Err()
	}
	f.mu.Lock()
	*f.calls = append(*f.calls, c09Call{Host: f.name, K: k, Outcome: out, Payload: payloadOK, Seq: f.seq.Add(1)})
	f.mu.Unlock()
	if err != nil {
		return nil, err
	}
	return &emptypb.Empty{}, nil
}

type c09Topo struct{ hs, hr, cs, cr int }

func (t c09Topo) String() string { return fmt.Sprintf("hot%dx%d cold%dx%d", t.hs, t.hr, t.cs, t.cr) }

func runC09(w *h.W, batch int) {
	r := w.Rng()
	opening := batch%8 == 7 // this worker's breakers do open
	cfg := circuitbreaker.Config{Timeout: 40 * time.Millisecond, RequestVolumeThreshold: 1 << 40, ErrorThresholdPercentage: 100, NumBuckets: 10, BucketWidth: time.Second, SleepWindow: time.Hour}
	if opening {
		cfg = circuitbreaker.Config{Timeout: 40 * time.Millisecond, RequestVolumeThreshold: 2, ErrorThresholdPercentage: 50, NumBuckets: 10, BucketWidth: 100 * time.Millisecond, SleepWindow: 3 * time.Millisecond}
	}
	// exhaustive part: small topologies, {ok,err}^(hosts*tries); the batches split the script space
	small := []c09Topo{{1, 1, 0, 0}, {1, 2, 0, 0}, {2, 1, 0, 0}, {1, 1, 1, 1}, {2, 2, 0, 0}, {2, 1, 1, 1}, {1, 2, 1, 1}, {2, 2, 1, 1}}
	nb := nbOf("C09", w.Tier)
	idx := 0
	for ti, topo := range small {
		hosts := topo.hs*topo.hr + topo.cs*topo.cr
		bits := hosts * consts.BulkMaxTries
		total := 1 << bits
		stride := 1
		if w.Quick() && total > 2048 {
			stride = total / 2048 // quick: an evenly spread subset of the large spaces
		}
		for code := 0; code < total; code += stride {
			idx++
			if idx%nb != batch%nb {
				continue
			}
			c := code
			if stride > 1 {
				c = (code + int(r.U64()%uint64(stride))) % total
			}
			script := make([][]string, hosts)
			for hI := 0; hI < hosts; hI++ {
				for k := 0; k < consts.BulkMaxTries; k++ {
					o := "ok"
					if c>>(hI*consts.BulkMaxTries+k)&1 == 1 {
						o = "err"
					}
					script[hI] = append(script[hI], o)
				}
			}
			c09Case(w, r, topo, script, cfg, fmt.Sprintf("exhaustive#%d", ti), opening)
		}
	}
	// seeded part: larger topologies, timeouts
	n := 60
	if !w.Quick() {
		n = 200
	}
	for i := 0; i < n; i++ {
		sr := r.Fork()
		topo := c09Topo{sr.Range(1, 3), sr.Range(1, 3), 0, 0}
		if sr.Bool() {
			topo.cs, topo.cr = sr.Range(1, 2), sr.Range(1, 2)
		}
		hosts := topo.hs*topo.hr + topo.cs*topo.cr
		pErr := h.Pick(sr, []int{10, 30, 50, 70, 90})
		script := make([][]string, hosts)
		for hI := range script {
			for k := 0; k < consts.BulkMaxTries+1; k++ {
				o := "ok"
				if sr.Intn(100) < pErr {
					o = "err"
					if sr.Chance(1, 12) {
						o = "timeout"
					}
				}
				script[hI] = append(script[hI], o)
			}
		}
		c09Case(w, sr, topo, script, cfg, "seeded", opening)
	}
}

func c09Case(w *h.W, r *h.Rng, topo c09Topo, script [][]string, cfg circuitbreaker.Config, mode string, opening bool) {
	var flat []string
	for _, s := range script {
		flat = append(flat, strings.Join(s, ","))
	}
	desc := map[string]any{"topology": topo.String(), "script(host: outcome of 1st,2nd,.. call)": flat, "mode": mode, "breakers_open": opening}
	if !w.Begin(desc) {
		return
	}
	docs := r.Bytes(r.Range(40, 200))
	metas := r.Bytes(r.Range(40, 120))
	var mu sync.Mutex
	var calls []c09Call
	var seq atomic.Int64
	clients := map[string]pb.StoreApiClient{}
	mk := func(prefix string, shards, reps, base int) (*stores.Stores, [][]string) {
		st := &stores.Stores{Shards: [][]string{}, Vers: []string{}}
		for s := 0; s < shards; s++ {
			var hosts []string
			for p := 0; p < reps; p++ {
				name := fmt.Sprintf("%s-%d-%d", prefix, s, p)
				hosts = append(hosts, name)
				clients[name] = &c09Host{name: name, script: script[base+s*reps+p], mu: &mu, calls: &calls, seq: &seq, docs: docs, metas: metas}
			}
			st.Shards = append(st.Shards, hosts)
			st.Vers = append(st.Vers, "v")
		}
		return st, st.Shards
	}
	hot, hotHosts := mk("hot", topo.hs, topo.hr, 0)
	cold, coldHosts := mk("cold", topo.cs, topo.cr, topo.hs*topo.hr)
	cl := bulk.NewSeqDBClient(hot, cold, cfg, clients)
	var err error
	if pn := h.Guard(func() { err = cl.StoreDocuments(context.Background(), 3, bytes.Clone(docs), bytes.Clone(metas)) }); pn != "" {
		w.Violation("C09:client-panicked", map[string]any{"panic": pn[:min(len(pn), 600)], "case": desc})
		return
	}
	mu.Lock()
	log := append([]c09Call{}, calls...)
	mu.Unlock()
	w.Count("store_calls", int64(len(log)))
	// ---- offline oracle over the call log
	okBy := map[string]bool{}
	perHost := map[string]int{}
	hasOK, hasFail := false, false
	for _, c := range log {
		perHost[c.Host]++
		if c.Outcome == "ok" {
			hasOK = true
			if c.Payload {
				okBy[c.Host] = true
			}
		} else {
			hasFail = true
		}
	}
	witness := func(tier [][]string) bool {
		for _, shard := range tier {
			all := true
			for _, hst := range shard {
				if !okBy[hst] {
					all = false
				}
			}
			if all {
				return true
			}
		}
		return false
	}
	bad := ""
	acked := err == nil
	if acked {
		w.Count("acknowledged", 1)
		if !witness(hotHosts) {
			bad = "ack-without-witness:hot: bulk reported as stored but no hot shard has a successful call with the request payload on every replica"
		} else if len(coldHosts) > 0 && !witness(coldHosts) {
			bad = "ack-without-witness:cold: bulk reported as stored but no long-term shard has a successful call with the request payload on every replica"
		}
	} else {
		w.Count("reported_failed", 1)
		if witness(hotHosts) && (len(coldHosts) == 0 || witness(coldHosts)) {
			w.Count("failed_although_witness_exists(legal)", 1)
		}
	}
	for hst, n := range perHost {
		if n > consts.BulkMaxTries && bad == "" {
			bad = fmt.Sprintf("too-many-calls: host %s received %d calls for one bulk (BulkMaxTries=%d)", hst, n, consts.BulkMaxTries)
		}
	}
	for _, c := range log {
		if c.Outcome == "ok" && !c.Payload && bad == "" {
			bad = fmt.Sprintf("wrong-payload: host %s accepted a call whose docs/metas differ from the request", c.Host)
		}
	}
	if bad != "" {
		w.Violation("C09:"+strings.SplitN(bad, ":", 2)[0], map[string]any{"diff": bad, "case": desc, "acknowledged": acked, "error": fmt.Sprint(err), "calls": log})
		return
	}
	maxCalls := 0
	for _, n := range perHost {
		maxCalls = max(maxCalls, n)
	}
	nt := hasOK && hasFail && maxCalls > 1
	if nt && w.WantSample() {
		w.Sample(map[string]any{"case": desc, "acknowledged": acked, "calls": log})
	}
	w.Held(topo.String()+"|"+strings.Join(flat, ";")+fmt.Sprintf("|open=%v", opening), nt)
}
