package props

import (
	"fmt"
	"os"
	"path/filepath"
	"regexp"
	"strings"
)

// Syscall-level durability monitor (strace -f), independent of the hooks: a hook line that survives while the fsync it
// reports was dropped cannot fool it. strace logs every syscall entry/exit before the traced thread continues, so the
// order of its lines respects every happens-before edge of the program.
//
// Rules checked for every rename(src -> dst) whose dst is selected by the caller ("publication" of a file written under
// a temporary name) and for the removals that follow a publication:
//   R1  every write to src that completed before the rename is covered by an fsync of src that started after the write
//       completed and itself completed before the rename started;
//   R3  a file selected by the caller is never written under its final name (its content arrives there by a rename only);
//   R2  a file named by removeAfter(dst) (the data the published file replaces) is unlinked only after a directory fsync
//       that started after the rename has completed.

var (
	srOpen    = regexp.MustCompile(`^(\d+)\s+openat\([^,]+, "([^"]+)".*\) = (\d+)`)
	srOpenUnf = regexp.MustCompile(`^(\d+)\s+openat\([^,]+, "([^"]+)".*<unfinished`)
	srOpenRes = regexp.MustCompile(`^(\d+)\s+<\.\.\. openat resumed>.*= (\d+)`)
	srCall    = regexp.MustCompile(`^(\d+)\s+(pwrite64|write|fsync|fdatasync)\((\d+)(.*)$`)
	srRes     = regexp.MustCompile(`^(\d+)\s+<\.\.\. (pwrite64|write|fsync|fdatasync|renameat|rename|unlinkat) resumed>.*= (-?\d+)`)
	srRename  = regexp.MustCompile(`^(\d+)\s+rename(?:at|at2)?\((?:AT_FDCWD, )?"([^"]+)", (?:AT_FDCWD, )?"([^"]+)"(.*)$`)
	srUnlink  = regexp.MustCompile(`^(\d+)\s+unlink(?:at)?\((?:AT_FDCWD, )?"([^"]+)"(.*)$`)
)

const straceDurabilityTrace = "trace=openat,pwrite64,write,fsync,fdatasync,rename,renameat,renameat2,unlink,unlinkat"

type renameDurability struct {
	Renames    int // selected renames seen
	Unlinks    int // removals judged by R2
	Violation  string
	Recognised bool // at least one write to a later-renamed file was mapped (otherwise the trace is not usable: inconclusive)
}

func checkRenameDurability(tracePath string, publish func(dst string) bool, removeAfter func(dst string) []string) renameDurability {
	var out renameDurability
	b, err := os.ReadFile(tracePath)
	if err != nil {
		return out
	}
	fdPath := map[string]string{}
	pendO := map[string]string{}
	completed := map[string]int{} // path -> writes completed
	covered := map[string]int{}   // path -> writes covered by a completed fsync
	type pend struct {
		path  string
		snap  int // writes to path completed when the fsync started
		epoch int // renames started when the fsync started
	}
	pendW := map[string]string{}
	pendS := map[string]pend{}
	dirSyncEpoch := map[string]int{} // dir -> number of renames that had started when the last completed dir fsync started
	renameCount := 0
	renamedInto := map[string]bool{} // paths that got their content through a rename
	needDirSync := map[string]int{}  // file that may be removed -> rename ordinal it waits for
	fail := func(format string, a ...any) {
		if out.Violation == "" {
			out.Violation = fmt.Sprintf(format, a...)
		}
	}
	for _, ln := range strings.Split(string(b), "\n") {
		if m := srOpen.FindStringSubmatch(ln); m != nil {
			fdPath[m[3]] = m[2]
			continue
		}
		if m := srOpenUnf.FindStringSubmatch(ln); m != nil {
			pendO[m[1]] = m[2]
			continue
		}
		if m := srOpenRes.FindStringSubmatch(ln); m != nil {
			if p, ok := pendO[m[1]]; ok {
				fdPath[m[2]] = p
				delete(pendO, m[1])
			}
			continue
		}
		if m := srCall.FindStringSubmatch(ln); m != nil {
			pid, call, fd, rest := m[1], m[2], m[3], m[4]
			path := fdPath[fd]
			unfinished := strings.Contains(rest, "<unfinished")
			switch call {
			case "write", "pwrite64":
				if path == "" {
					continue
				}
				if publish(path) && !renamedInto[path] {
					fail("syscall trace: %s is written under its final name (not under a temporary name that is renamed into place after an fsync)", filepath.Base(path))
				}
				if unfinished {
					pendW[pid] = path
				} else {
					completed[path]++
				}
			default:
				if unfinished {
					pendS[pid] = pend{path, completed[path], renameCount}
				} else if strings.Contains(rest, "= 0") {
					covered[path] = max(covered[path], completed[path])
					dirSyncEpoch[path] = max(dirSyncEpoch[path], renameCount)
				}
			}
			continue
		}
		if m := srRes.FindStringSubmatch(ln); m != nil {
			pid := m[1]
			switch m[2] {
			case "write", "pwrite64":
				if p, ok := pendW[pid]; ok {
					completed[p]++
					delete(pendW, pid)
				}
			case "fsync", "fdatasync":
				if p, ok := pendS[pid]; ok {
					if m[3] == "0" {
						covered[p.path] = max(covered[p.path], p.snap)
						dirSyncEpoch[p.path] = max(dirSyncEpoch[p.path], p.epoch)
					}
					delete(pendS, pid)
				}
			}
			continue
		}
		if m := srRename.FindStringSubmatch(ln); m != nil {
			src, dst := m[2], m[3]
			renameCount++
			if src != dst {
				renamedInto[dst] = true
			}
			if !publish(dst) {
				continue
			}
			out.Renames++
			if completed[src] > 0 {
				out.Recognised = true
			}
			if covered[src] < completed[src] {
				fail("syscall trace: %s was renamed to %s while %d of its %d completed writes were not covered by a completed fsync of that file", filepath.Base(src), filepath.Base(dst), completed[src]-covered[src], completed[src])
			}
			for _, p := range pendW {
				if p == src {
					fail("syscall trace: %s was renamed to %s while a write to it was still in progress", filepath.Base(src), filepath.Base(dst))
				}
			}
			for _, f := range removeAfter(dst) {
				needDirSync[f] = renameCount
			}
			// the file lives on under the new name
			completed[dst], covered[dst] = completed[src], covered[src]
			for fd, p := range fdPath {
				if p == src {
					fdPath[fd] = dst
				}
			}
			continue
		}
		if m := srUnlink.FindStringSubmatch(ln); m != nil {
			if ord, ok := needDirSync[m[2]]; ok {
				out.Unlinks++
				if dirSyncEpoch[filepath.Dir(m[2])] < ord {
					fail("syscall trace: %s was removed before a directory fsync made the rename that replaces it durable", filepath.Base(m[2]))
				}
			}
		}
	}
	return out
}
