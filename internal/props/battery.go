package props

import (
	"bytes"
	"fmt"
	"sort"

	pb "github.com/ozontech/seq-db/pkg/storeapi"

	"verif/internal/gen"
	"verif/internal/h"
	"verif/internal/model"
	"verif/internal/sdb"
)

// A battery is a fixed list of requests with their model answers, evaluated against one or several forms of the same data.

type request struct {
	Kind string // search | fetch
	SC   searchCase
	Q    *model.Q
	Aggs []model.AggReq
	IDs  []model.ID // fetch
	// expected
	Exp     model.Res
	ExpAggs []model.AggRes
	ExpDocs [][]byte
	Shape   string
}

type batteryOpt struct {
	Searches, Fetches int
	Aggs              bool
	Hot               map[string][]string
	MaxDepth          int
	FetchMax          int
}

func makeBattery(r *h.Rng, corp *gen.Corpus, o batteryOpt) []*request {
	var out []*request
	byID := map[model.ID]*model.Doc{}
	for _, d := range corp.Docs {
		if byID[d.ID] == nil {
			byID[d.ID] = d
		}
	}
	if o.MaxDepth == 0 {
		o.MaxDepth = 4
	}
	for i := 0; i < o.Searches; i++ {
		qr := r.Fork()
		var q *model.Q
		if len(o.Hot) > 0 && qr.Chance(1, 3) {
			// bias towards boundary tokens
			for f, vs := range o.Hot {
				v := h.Pick(qr, vs)
				switch qr.Intn(4) {
				case 0:
					q = &model.Q{Op: "lit", Field: f, Pat: v}
				case 1:
					q = &model.Q{Op: "lit", Field: f, Pat: v[:qr.Intn(len(v)+1)] + "*"}
				case 2:
					q = &model.Q{Op: "range", Field: f, Lo: v, Hi: h.Pick(qr, vs), LoInc: qr.Bool(), HiInc: qr.Bool()}
					if q.Lo > q.Hi {
						q.Lo, q.Hi = q.Hi, q.Lo
					}
				default:
					q = &model.Q{Op: "and", Kids: []*model.Q{{Op: "lit", Field: f, Pat: v}, corp.Query(qr, gen.QueryOpt{MaxDepth: 1})}}
				}
				break
			}
		} else {
			q = corp.Query(qr, gen.QueryOpt{MaxDepth: qr.Range(0, o.MaxDepth)})
		}
		from, to, _ := corp.TimeRange(qr)
		req := &request{Kind: "search", Q: q, Shape: q.Shape()}
		req.SC = searchCase{From: from, To: to, Asc: qr.Bool(), WithTotal: qr.Bool()}
		if qr.Bool() {
			req.SC.Lang, req.SC.Query = "seqql", q.SeqQL(qr)
		} else {
			req.SC.Lang, req.SC.Query = "legacy", q.Legacy(qr)
		}
		k := int(model.Search(corp.Docs, model.Req{Q: q, From: from, To: to}).Total)
		req.SC.Limit, _ = gen.LimitFor(qr, k)
		if req.SC.Limit > 2000 {
			req.SC.Limit = 2000
		}
		if qr.Chance(1, 4) {
			req.SC.Interval = uint64(h.Pick(qr, []int{1, 10, 1000, 60000}))
		}
		if o.Aggs && qr.Chance(1, 3) {
			req.Aggs = append(req.Aggs, genAgg(qr))
		}
		req.Exp = model.Search(corp.Docs, model.Req{Q: q, From: from, To: to, Asc: req.SC.Asc, Limit: req.SC.Limit, Interval: req.SC.Interval})
		for _, a := range req.Aggs {
			req.ExpAggs = append(req.ExpAggs, model.Aggregate(req.Exp.Docs, a))
		}
		req.Exp.Docs = nil
		out = append(out, req)
	}
	if o.FetchMax == 0 {
		o.FetchMax = 300
	}
	sorted := append([]*model.Doc{}, corp.Docs...)
	sort.Slice(sorted, func(i, j int) bool { return sorted[i].ID.Less(sorted[j].ID) })
	for i := 0; i < o.Fetches && len(sorted) > 0; i++ {
		fr := r.Fork()
		n := fr.LogInt(1, o.FetchMax)
		req := &request{Kind: "fetch"}
		used := map[model.ID]bool{}
		// a run of neighbours (crosses doc blocks / ID blocks) plus random picks plus a few absent IDs
		start := fr.Intn(len(sorted))
		for j := 0; j < n; j++ {
			var id model.ID
			switch {
			case j < n/2 && start+j < len(sorted):
				id = sorted[start+j].ID
			case fr.Chance(1, 6):
				d := h.Pick(fr, sorted)
				id = model.ID{MID: d.ID.MID, RID: d.ID.RID ^ 0x55}
			default:
				id = h.Pick(fr, sorted).ID
			}
			if used[id] {
				continue
			}
			used[id] = true
			req.IDs = append(req.IDs, id)
		}
		if fr.Bool() {
			sort.Slice(req.IDs, func(a, b int) bool { return req.IDs[b].Less(req.IDs[a]) })
		}
		for _, id := range req.IDs {
			if d := byID[id]; d != nil {
				req.ExpDocs = append(req.ExpDocs, d.Body)
			} else {
				req.ExpDocs = append(req.ExpDocs, nil)
			}
		}
		out = append(out, req)
	}
	return out
}

func (q *request) desc(form, corpus string) map[string]any {
	if q.Kind == "fetch" {
		return map[string]any{"kind": "fetch", "ids": len(q.IDs), "first": fmtIDs(q.IDs, 4), "form": form, "corpus": corpus}
	}
	sc := q.SC
	sc.Form, sc.Corpus = form, corpus
	return map[string]any{"kind": "search", "case": sc, "aggs": q.Aggs}
}

// check evaluates the request on a store; returns "" when the answer equals the model's.
func (q *request) check(st *sdb.Store) (class string, diff string) { return q.checkMode(st, false) }

// checkMode with idsOnly judges only the ID list (and fetch entries): used where the statement promises "listed once" but not the counts.
func (q *request) checkMode(st *sdb.Store, idsOnly bool) (class string, diff string) {
	if q.Kind == "fetch" {
		got, err := st.Fetch(q.IDs, nil, nil)
		if err != nil {
			return "error-returned:" + errSig(err.Error()), err.Error()
		}
		if len(got) != len(q.IDs) {
			return "wrong-fetch", fmt.Sprintf("%d entries for %d IDs", len(got), len(q.IDs))
		}
		for i := range got {
			if got[i].ID != q.IDs[i] {
				return "wrong-fetch", fmt.Sprintf("entry %d has ID %s, requested %s", i, got[i].ID, q.IDs[i])
			}
			if !bytes.Equal(got[i].Data, q.ExpDocs[i]) && !(len(got[i].Data) == 0 && len(q.ExpDocs[i]) == 0) {
				return "wrong-fetch", fmt.Sprintf("entry %d (%s): got %.60q expected %.60q", i, q.IDs[i], got[i].Data, q.ExpDocs[i])
			}
		}
		return "", ""
	}
	var pbaggs []*pb.AggQuery
	for _, a := range q.Aggs {
		pbaggs = append(pbaggs, aggToPB(a))
	}
	res, err := st.Search(sdb.SearchReq{Query: q.SC.Query, SeqQL: q.SC.Lang == "seqql", From: q.SC.From, To: q.SC.To, Size: q.SC.Limit,
		Asc: q.SC.Asc, WithTotal: q.SC.WithTotal, Interval: q.SC.Interval, Aggs: pbaggs})
	if err != nil {
		return "error-returned:" + errSig(err.Error()), err.Error()
	}
	if res.Code != 0 {
		return "error-code", res.Code.String()
	}
	if !idsEqual(res.IDs, q.Exp.IDs) {
		return "wrong-ids", fmt.Sprintf("got %d ids [%s] expected %d [%s]", len(res.IDs), fmtIDs(res.IDs, 10), len(q.Exp.IDs), fmtIDs(q.Exp.IDs, 10))
	}
	if idsOnly {
		return "", ""
	}
	if q.SC.WithTotal && res.Total != q.Exp.Total {
		return "wrong-total", fmt.Sprintf("got %d expected %d", res.Total, q.Exp.Total)
	}
	if q.SC.Interval > 0 && !histEqual(res.Hist, q.Exp.Hist) {
		return "wrong-histogram", fmt.Sprintf("got %v expected %v", res.Hist, q.Exp.Hist)
	}
	if len(q.Aggs) > 0 {
		if len(res.Aggs) != len(q.Aggs) {
			return "wrong-aggregate", fmt.Sprintf("%d aggregations returned for %d requested", len(res.Aggs), len(q.Aggs))
		}
		for i, a := range q.Aggs {
			if s := compareSamples(q.ExpAggs[i], a, pbAggToBins(res.Aggs[i]), res.Aggs[i].NotExists); s != "" {
				return "wrong-aggregate", s
			}
		}
	}
	return "", ""
}

func (q *request) nontrivial(corpusSize int) bool {
	if q.Kind == "fetch" {
		return len(q.IDs) > 1
	}
	return q.Exp.Total > 0 && int(q.Exp.Total) < corpusSize
}
