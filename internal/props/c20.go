package props

import (
	"bytes"
	"context"
	"encoding/json"
	"fmt"
	"math/big"
	"sort"
	"strings"
	"time"

	"google.golang.org/grpc"

	"github.com/ozontech/seq-db/mappingprovider"
	"github.com/ozontech/seq-db/pkg/seqproxyapi/v1"
	pb "github.com/ozontech/seq-db/pkg/storeapi"
	"github.com/ozontech/seq-db/proxyapi"
	"github.com/ozontech/seq-db/seq"

	"verif/internal/gen"
	"verif/internal/h"
	"verif/internal/model"
	"verif/internal/sdb"
)

// C20 — the fields pipe returns a faithful projection of each stored document.

func init() {
	h.Register(&h.Prop{
		ID:    "C20",
		Level: "exploration",
		Rule: "case = (stored JSON objects from a generator covering escapes, unicode, every number notation, nested containers, empty object; field list with present/absent/all/none/repeated names; " +
			"allow or except mode; surface = store fetch filter, proxy search with '| fields' pipe, or the proxy's public Fetch handler with a fields filter; a quarter of the documents carry two members whose names differ only by letter case); oracle reads both sides with encoding/json (numbers as exact rationals): " +
			"valid JSON object, key set = stored ∩ list (or minus list), values JSON-equal, no-pipe => bytes identical, ID sequence identical to the same query without the pipe; " +
			"non-trivial = the projection removes some but not all members of some document; distinct = (surface, mode, list class, doc shape class)",
		Assumptions: []string{"documents with duplicate keys are not generated (statement: faithful projection of an object)", "encoding/json is the independent JSON reader"},
		Batches:     tiered(640, 12800),
		Run:         runC20,
		Timeout:     timeoutFor(3*time.Minute, 40*time.Minute),
	})
}

// jsonEq compares two decoded JSON values; numbers are compared as exact rationals.
func jsonEq(a, b any) bool {
	switch x := a.(type) {
	case map[string]any:
		y, ok := b.(map[string]any)
		if !ok || len(x) != len(y) {
			return false
		}
		for k, v := range x {
			w, ok := y[k]
			if !ok || !jsonEq(v, w) {
				return false
			}
		}
		return true
	case []any:
		y, ok := b.([]any)
		if !ok || len(x) != len(y) {
			return false
		}
		for i := range x {
			if !jsonEq(x[i], y[i]) {
				return false
			}
		}
		return true
	case json.Number:
		y, ok := b.(json.Number)
		if !ok {
			return false
		}
		ra, ok1 := new(big.Rat).SetString(string(x))
		rb, ok2 := new(big.Rat).SetString(string(y))
		if !ok1 || !ok2 {
			return string(x) == string(y)
		}
		return ra.Cmp(rb) == 0
	default:
		return a == b
	}
}

func decodeObj(b []byte) (map[string]any, error) {
	dec := json.NewDecoder(bytes.NewReader(b))
	dec.UseNumber()
	var v any
	if err := dec.Decode(&v); err != nil {
		return nil, err
	}
	if dec.More() {
		return nil, fmt.Errorf("trailing data after the JSON value")
	}
	m, ok := v.(map[string]any)
	if !ok {
		return nil, fmt.Errorf("not a JSON object")
	}
	return m, nil
}

// checkProjection judges one returned document against the stored one.
func checkProjection(stored, got []byte, fields []string, allow bool) (string, bool) {
	if len(fields) == 0 {
		if !bytes.Equal(stored, got) {
			return fmt.Sprintf("no filter but bytes changed: stored %.120q got %.120q", stored, got), false
		}
		return "", false
	}
	so, err := decodeObj(stored)
	if err != nil {
		return "", false // not judged: generator bug guard
	}
	gobj, err := decodeObj(got)
	if err != nil {
		return fmt.Sprintf("result is not a valid JSON object (%v): %.160q (stored %.160q)", err, got, stored), false
	}
	in := map[string]bool{}
	for _, f := range fields {
		in[f] = true
	}
	want := map[string]any{}
	for k, v := range so {
		if in[k] == allow {
			want[k] = v
		}
	}
	for k := range gobj {
		if _, ok := want[k]; !ok {
			return fmt.Sprintf("unexpected member %q in result %.160q (stored %.160q, fields %q allow=%v)", k, got, stored, fields, allow), false
		}
	}
	for k, v := range want {
		gv, ok := gobj[k]
		if !ok {
			return fmt.Sprintf("member %q missing in result %.160q (stored %.160q, fields %q allow=%v)", k, got, stored, fields, allow), false
		}
		if !jsonEq(v, gv) {
			return fmt.Sprintf("member %q changed: result %.160q stored %.160q", k, got, stored), false
		}
	}
	return "", len(want) > 0 && len(want) < len(so)
}

func seqqlFieldName(f string) string {
	bare := f != ""
	for _, r := range f {
		if !(r == '_' || r == '.' || r == '-' || (r >= 'a' && r <= 'z') || (r >= 'A' && r <= 'Z') || (r >= '0' && r <= '9')) {
			bare = false
		}
	}
	switch strings.ToLower(f) {
	case "or", "and", "not", "fields", "except", "in", "to":
		bare = false
	}
	if bare {
		return f
	}
	var b strings.Builder
	b.WriteByte('"')
	for _, c := range f {
		switch c {
		case '"', '\\':
			b.WriteByte('\\')
			b.WriteRune(c)
		case '*':
			b.WriteString(`\*`)
		case '\n':
			b.WriteString(`\n`)
		case '\t':
			b.WriteString(`\t`)
		default:
			b.WriteRune(c)
		}
	}
	b.WriteByte('"')
	return b.String()
}

// fakeFetchStream collects what the proxy's streaming Fetch handler sends.
type fakeFetchStream struct {
	grpc.ServerStream
	ctx  context.Context
	docs []*seqproxyapi.Document
}

func (f *fakeFetchStream) Context() context.Context { return f.ctx }
func (f *fakeFetchStream) Send(d *seqproxyapi.Document) error {
	f.docs = append(f.docs, d)
	return nil
}

func runC20(w *h.W, batch int) {
	r := w.Rng()
	nCorp, perCorp := 3, 30
	for ci := 0; ci < nCorp; ci++ {
		cr := r.Fork()
		n := cr.LogInt(3, 120)
		var docs []*model.Doc
		keyUse := map[string]int{}
		for i := 0; i < n; i++ {
			body := gen.JSONDoc(cr, cr.Range(0, 8), cr.Range(0, 3), nil)
			if cr.Chance(1, 4) {
				// a second member whose name differs from an existing one only by letter case (names are case-sensitive)
				if o, err := decodeObj([]byte(body)); err == nil {
					var ks []string
					for k := range o {
						ks = append(ks, k)
					}
					sort.Strings(ks)
					for _, k := range ks {
						v := strings.ToUpper(k)
						if cr.Bool() && len(k) > 0 {
							v = strings.ToUpper(k[:1]) + k[1:]
						}
						plain := k != "" && strings.Trim(k, "abcdefghijklmnopqrstuvwxyz0123456789_") == ""
						if _, dup := o[v]; plain && v != k && !dup {
							member := fmt.Sprintf("%q:%d", v, cr.Intn(1000))
							if len(o) == 0 {
								body = "{" + member + "}"
							} else {
								body = "{" + member + "," + strings.TrimLeft(body, " \t\n")[1:]
							}
							break
						}
					}
				}
			}
			d := &model.Doc{ID: model.ID{MID: gen.T0 + uint64(cr.Intn(500)), RID: cr.U64()}, Body: []byte(body)}
			d.Toks = []model.Tok{{F: "k1", V: fmt.Sprintf("g%d", i%3)}}
			docs = append(docs, d)
			if o, err := decodeObj(d.Body); err == nil {
				for k := range o {
					keyUse[k]++
				}
			}
		}
		var keys []string
		for k := range keyUse {
			keys = append(keys, k)
		}
		sort.Strings(keys)
		cl, err := sdb.OpenCluster(w.Sub(fmt.Sprintf("c%d", ci)), cr.Range(1, 2), 1, sdb.Opt{Mapping: StoreMapping()})
		if err != nil {
			if w.Begin(map[string]any{"step": "open"}) {
				w.Violation("C20:store-did-not-start", map[string]any{"error": err.Error()})
			}
			continue
		}
		cl.SeqQL = true
		shards := len(cl.Stores)
		parts := make([][]*model.Doc, shards)
		for _, d := range docs {
			s := cr.Intn(shards)
			parts[s] = append(parts[s], d)
		}
		var lerr error
		for s := range parts {
			if err := ingest(cl.Stores[s][0], parts[s], cr, 2); err != nil {
				lerr = err
			}
			if cr.Bool() && len(parts[s]) > 0 {
				cl.Stores[s][0].SealAll()
			}
		}
		if lerr != nil {
			if w.Begin(map[string]any{"step": "ingest"}) {
				w.Violation("C20:bulk-error", map[string]any{"error": lerr.Error()})
			}
			cl.Stop()
			continue
		}
		byID := map[model.ID]*model.Doc{}
		for _, d := range docs {
			byID[d.ID] = d
		}
		mp, _ := mappingprovider.New("", mappingprovider.WithMapping(StoreMapping()))
		srv := proxyapi.NewGrpcV1ForVerif(proxyapi.APIConfig{SearchTimeout: time.Minute, ExportTimeout: time.Minute}, cl.Ing, mp)
		for qi := 0; qi < perCorp; qi++ {
			qr := cr.Fork()
			// field list
			var fields []string
			lclass := h.Pick(qr, []string{"present", "absent", "mixed", "all", "none", "repeated"})
			switch lclass {
			case "present":
				for i := 0; i < qr.Range(1, 3) && len(keys) > 0; i++ {
					fields = append(fields, h.Pick(qr, keys))
				}
			case "absent":
				fields = []string{"no_such_field", "nope"}[:qr.Range(1, 2)]
			case "mixed":
				if len(keys) > 0 {
					fields = append(fields, h.Pick(qr, keys))
				}
				fields = append(fields, "no_such_field")
			case "all":
				fields = append(fields, keys...)
			case "none":
			case "repeated":
				if len(keys) > 0 {
					k := h.Pick(qr, keys)
					fields = []string{k, k}
				}
			}
			if len(fields) > 20 {
				fields = fields[:20]
			}
			allow := qr.Bool()
			surface := h.Pick(qr, []string{"store-fetch", "proxy-pipe", "proxy-fetch"})
			desc := map[string]any{"surface": surface, "fields": fields, "allow": allow, "docs": n, "list_class": lclass}
			if !w.Begin(desc) {
				continue
			}
			bad := ""
			nontrivial := false
			judged := 0
			if surface == "store-fetch" {
				s := qr.Intn(shards)
				var ids []model.ID
				for _, d := range parts[s] {
					if qr.Chance(2, 3) {
						ids = append(ids, d.ID)
					}
				}
				ids = append(ids, model.ID{MID: gen.T0 + 7, RID: 12345}) // an absent one
				var filter *pb.FetchRequest_FieldsFilter
				if len(fields) > 0 || qr.Bool() {
					filter = &pb.FetchRequest_FieldsFilter{Fields: fields, AllowList: allow}
				}
				got, err := cl.Stores[s][0].Fetch(ids, nil, filter)
				if err != nil {
					bad = "fetch error: " + err.Error()
				} else if len(got) != len(ids) {
					bad = fmt.Sprintf("%d entries for %d ids", len(got), len(ids))
				}
				for i := 0; bad == "" && i < len(ids); i++ {
					d := byID[ids[i]]
					if got[i].ID != ids[i] {
						bad = fmt.Sprintf("entry %d has ID %s, requested %s", i, got[i].ID, ids[i])
						break
					}
					if d == nil {
						if len(got[i].Data) != 0 {
							bad = fmt.Sprintf("absent ID returned data %.80q", got[i].Data)
						}
						continue
					}
					s, nt := checkProjection(d.Body, got[i].Data, fields, allow)
					bad = s
					nontrivial = nontrivial || nt
					judged++
				}
			} else if surface == "proxy-fetch" {
				// the proxy's public Fetch handler with a fields filter (IDs of all shards, an absent one among them)
				var ids []model.ID
				for _, d := range docs {
					if qr.Chance(1, 2) {
						ids = append(ids, d.ID)
					}
				}
				ids = append(ids, model.ID{MID: gen.T0 + 7, RID: 12345})
				req := &seqproxyapi.FetchRequest{}
				for _, id := range ids {
					req.Ids = append(req.Ids, seq.ID{MID: seq.MID(id.MID), RID: seq.RID(id.RID)}.String())
				}
				if len(fields) > 0 || qr.Bool() {
					req.FieldsFilter = &seqproxyapi.FetchRequest_FieldsFilter{Fields: fields, AllowList: allow}
				}
				fs := &fakeFetchStream{ctx: context.Background()}
				var herr error
				if pn := h.Guard(func() { herr = srv.Fetch(req, fs) }); pn != "" {
					bad = "proxy Fetch handler panicked (error): " + strings.SplitN(pn, "\n", 2)[0]
				} else if herr != nil {
					bad = "proxy Fetch error: " + herr.Error()
				} else if len(fs.docs) != len(ids) {
					bad = fmt.Sprintf("%d entries for %d ids", len(fs.docs), len(ids))
				}
				for i := 0; bad == "" && i < len(ids); i++ {
					d := byID[ids[i]]
					if fs.docs[i].Id != req.Ids[i] {
						bad = fmt.Sprintf("entry %d has ID %s, requested %s", i, fs.docs[i].Id, req.Ids[i])
						break
					}
					if d == nil {
						if len(fs.docs[i].Data) != 0 {
							bad = fmt.Sprintf("absent ID returned data %.80q", fs.docs[i].Data)
						}
						continue
					}
					s, nt := checkProjection(d.Body, fs.docs[i].Data, fields, allow)
					bad = s
					nontrivial = nontrivial || nt
					judged++
				}
			} else {
				q := "k1:g" + fmt.Sprint(qr.Intn(3))
				if qr.Chance(1, 3) {
					q = "*"
				} else if qr.Chance(1, 2) {
					// a '|' byte inside the filter part that is not the pipe separator (quoted value, raw string, in-list element)
					g := "g" + fmt.Sprint(qr.Intn(3))
					q = h.Pick(qr, []string{
						`k1:` + g + ` or k1:"a|b"`,
						`k1:in(` + g + `, "p|q")`,
						"k1:" + g + " or k1:`r|s`",
						`(k1:'x | fields y' or k1:` + g + `)`,
					})
				}
				size := qr.Range(1, 40)
				asc := qr.Bool()
				base, err := cl.Search(sdb.ProxyReq{Query: q, From: 0, To: 1 << 62, Size: size, Asc: asc, Fetch: true})
				if err != nil {
					bad = "proxy error (no pipe): " + err.Error()
				}
				piped := q
				if len(fields) > 0 {
					names := make([]string, len(fields))
					for i, f := range fields {
						names[i] = seqqlFieldName(f)
					}
					piped = q + " | fields "
					if !allow {
						piped += "except "
					}
					piped += strings.Join(names, ", ")
				}
				desc["query"] = piped
				var res *sdb.ProxyRes
				if bad == "" {
					res, err = cl.Search(sdb.ProxyReq{Query: piped, From: 0, To: 1 << 62, Size: size, Asc: asc, Fetch: true})
					if err != nil {
						bad = "proxy error (with pipe): " + err.Error()
					}
				}
				if bad == "" && !idsEqual(res.IDs, base.IDs) {
					bad = fmt.Sprintf("ID sequence changed by the pipe: %s vs %s", fmtIDs(res.IDs, 8), fmtIDs(base.IDs, 8))
				}
				if bad == "" && len(res.Docs) != len(res.IDs) {
					bad = fmt.Sprintf("%d documents for %d ids", len(res.Docs), len(res.IDs))
				}
				for i := 0; bad == "" && i < len(res.IDs); i++ {
					d := byID[res.IDs[i]]
					if d == nil {
						bad = "unknown ID returned " + res.IDs[i].String()
						break
					}
					if !bytes.Equal(base.Docs[i], d.Body) {
						bad = fmt.Sprintf("without pipe document %s is not byte-identical: %.100q vs stored %.100q", d.ID, base.Docs[i], d.Body)
						break
					}
					s, nt := checkProjection(d.Body, res.Docs[i], fields, allow)
					bad = s
					nontrivial = nontrivial || nt
					judged++
				}
			}
			w.Count("documents_judged", int64(judged))
			if bad != "" {
				class := "wrong-projection"
				if strings.Contains(bad, "error") {
					class = "error-returned"
				}
				w.Violation("C20:"+class+":"+surface, map[string]any{"diff": bad, "case": desc})
				continue
			}
			if nontrivial && w.WantSample() {
				w.Sample(desc)
			}
			mode := "except"
			if allow {
				mode = "allow"
			}
			w.Held(fmt.Sprintf("%s|%s|%s|f%d|j%d|k%d", surface, mode, lclass, len(fields), min(judged, 9), min(len(keys)/4, 6)), nontrivial)
		}
		cl.Stop()
	}
}
