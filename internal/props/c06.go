package props

import (
	"fmt"
	"strings"
	"time"

	pb "github.com/ozontech/seq-db/pkg/storeapi"
	"github.com/ozontech/seq-db/proxy/search"
	"github.com/ozontech/seq-db/seq"

	"verif/internal/gen"
	"verif/internal/h"
	"verif/internal/model"
	"verif/internal/sdb"
)

// C06 — aggregations and histograms equal values computed from the matching documents, in whatever order and
// grouping the partial results are merged.

func init() {
	h.Register(&h.Prop{
		ID:    "C06",
		Level: "exploration",
		Rule: "case = (seeded corpus with single-valued group/numeric fields - every fifth corpus with nothing but values beyond the int64 range, all of one sign - spread over 1..6 single-fraction shards, query, histogram interval, 1..3 aggregations); " +
			"each case checks the proxy-merged result, the rendered buckets and 6 seeded merge trees of the per-fraction partial results; " +
			"non-trivial = >=2 matching documents and >=2 bins in some aggregation; distinct = (functions, grouping, interval class, shards, forms, hist)",
		Assumptions: []string{
			"float sums compared with relative tolerance 1e-9 (seq-db sums in map-iteration order)",
			"single-valued group and field tokens, all numeric strings finite",
			"not-exists counts compared per group summed over time bins (statement does not place them in a time bin)",
		},
		Batches: tiered(384, 4800),
		Run:     runC06,
		Timeout: timeoutFor(3*time.Minute, 40*time.Minute),
	})
}

func qprFromPB(resp *pb.SearchResponse, source uint64) *seq.QPR {
	q := &seq.QPR{Total: resp.Total, Histogram: map[seq.MID]uint64{}}
	for _, is := range resp.IdSources {
		q.IDs = append(q.IDs, seq.IDSource{ID: seq.ID{MID: seq.MID(is.Id.Mid), RID: seq.RID(is.Id.Rid)}, Source: source, Hint: is.Hint})
	}
	for k, v := range resp.Histogram {
		q.Histogram[seq.MID(k)] = v
	}
	for _, a := range resp.Aggs {
		q.Aggs = append(q.Aggs, seq.AggregatableSamples{SamplesByBin: pbAggToBins(a), NotExists: a.NotExists})
	}
	return q
}

func histFromQPR(q *seq.QPR) map[uint64]uint64 {
	out := map[uint64]uint64{}
	for k, v := range q.Histogram {
		out[uint64(k)] = v
	}
	return out
}

func aggArgs(aggs []model.AggReq) []seq.AggregateArgs {
	args := make([]seq.AggregateArgs, len(aggs))
	for i, a := range aggs {
		args[i] = seq.AggregateArgs{Func: seqAggFunc(a.Func), Quantiles: a.Quantiles, SkipWithoutTimestamp: a.Interval > 0}
	}
	return args
}

// mergeTree merges QPRs (deep-copied from the pb responses) in a seeded random binary grouping with the real seq.MergeQPRs.
func mergeTree(r *h.Rng, resps []*pb.SearchResponse, limit int, interval uint64, asc bool, naggs int) *seq.QPR {
	ord := seq.DocsOrderDesc
	if asc {
		ord = seq.DocsOrderAsc
	}
	var nodes []*seq.QPR
	for _, i := range r.Perm(len(resps)) {
		nodes = append(nodes, qprFromPB(resps[i], uint64(i)))
	}
	for len(nodes) > 1 {
		// pick a random group of 2..k adjacent nodes and merge them into a fresh destination
		k := r.Range(2, len(nodes))
		at := r.Intn(len(nodes) - k + 1)
		dst := &seq.QPR{Histogram: map[seq.MID]uint64{}, Aggs: make([]seq.AggregatableSamples, naggs)}
		seq.MergeQPRs(dst, nodes[at:at+k], limit, seq.MID(interval), ord)
		rest := append([]*seq.QPR{}, nodes[:at]...)
		rest = append(rest, dst)
		rest = append(rest, nodes[at+k:]...)
		nodes = rest
	}
	if len(resps) == 1 {
		dst := &seq.QPR{Histogram: map[seq.MID]uint64{}, Aggs: make([]seq.AggregatableSamples, naggs)}
		seq.MergeQPRs(dst, nodes, limit, seq.MID(interval), ord)
		return dst
	}
	return nodes[0]
}

func runC06(w *h.W, batch int) {
	r := w.Rng()
	nCorp, perCorp := 4, 30
	for ci := 0; ci < nCorp; ci++ {
		cr := r.Fork()
		opt := gen.CorpusOpt{N: cr.LogInt(10, 800), Vocab: cr.Range(3, 8), MIDSpread: cr.LogInt(3, 5000), MaxToks: 2, Agg: true,
			Groups: cr.LogInt(1, 200), Tag: fmt.Sprintf("b%dc%d", batch, ci)}
		if !w.Quick() && cr.Chance(1, 8) {
			opt.N = cr.Range(9000, 20000) // more than 8096 samples in one bin is possible
			opt.Groups = cr.Range(1, 3)
		}
		// every fifth corpus: numeric fields hold nothing but values beyond the int64 range (no extra draws from cr for the others)
		opt.HugeNums = (batch*nCorp+ci)%5 == 3
		corp := gen.MakeCorpus(cr, opt)
		if opt.HugeNums {
			w.Count("corpora_with_only_values_beyond_int64", 1)
		}
		shards := cr.Range(1, 6)
		cl, err := sdb.OpenCluster(w.Sub(fmt.Sprintf("c%d", ci)), shards, 1, sdb.Opt{Mapping: StoreMapping()})
		if err != nil {
			if w.Begin(map[string]any{"step": "open"}) {
				w.Violation("C06:store-did-not-start", map[string]any{"error": err.Error()})
			}
			continue
		}
		cl.SeqQL = cr.Bool()
		// partition over shards; every shard holds exactly one fraction (so per-shard result = per-fraction partial result)
		parts := make([][]*model.Doc, shards)
		for _, d := range shuffled(cr, corp.Docs) {
			s := cr.Intn(shards)
			parts[s] = append(parts[s], d)
		}
		forms := make([]string, shards)
		var ierr error
		for s := 0; s < shards; s++ {
			st := cl.Stores[s][0]
			if err := ingest(st, parts[s], cr, cr.Range(1, 4)); err != nil {
				ierr = err
			}
			forms[s] = "a"
			if cr.Bool() && len(parts[s]) > 0 {
				st.SealAll()
				forms[s] = "s"
			}
		}
		if ierr != nil {
			if w.Begin(map[string]any{"step": "ingest"}) {
				w.Violation("C06:bulk-error", map[string]any{"error": ierr.Error()})
			}
			cl.Stop()
			continue
		}
		layout := fmt.Sprintf("N=%d groups=%d shards=%d forms=%s", opt.N, opt.Groups, shards, strings.Join(forms, ""))
		for qi := 0; qi < perCorp; qi++ {
			qr := cr.Fork()
			q := corp.Query(qr, gen.QueryOpt{MaxDepth: qr.Range(0, 2)})
			if qr.Chance(1, 3) {
				q = &model.Q{Op: "all"}
			}
			from, to, _ := corp.TimeRange(qr)
			if from > to || qr.Chance(1, 2) {
				from, to = 0, 1<<62
			}
			var text string
			if cl.SeqQL {
				text = q.SeqQL(qr)
			} else {
				text = q.Legacy(qr)
			}
			na := qr.Range(1, 3)
			var aggs []model.AggReq
			var paggs []search.AggQuery
			var pbaggs []*pb.AggQuery
			var fn []string
			for i := 0; i < na; i++ {
				a := genAgg(qr)
				aggs = append(aggs, a)
				paggs = append(paggs, aggToProxy(a))
				pbaggs = append(pbaggs, aggToPB(a))
				g := ""
				if a.GroupBy != "" {
					g = "/g"
				}
				t := ""
				if a.Interval > 0 {
					t = "/t"
				}
				fn = append(fn, a.Func+g+t)
			}
			var interval uint64
			if qr.Bool() {
				interval = uint64(h.Pick(qr, []int{1, 5, 100, 1000, 60000, 3600000}))
			}
			asc := qr.Bool()
			size := qr.Range(0, 5)
			desc := map[string]any{"query": text, "seqql": cl.SeqQL, "from": from, "to": to, "aggs": aggs, "hist_interval": interval, "layout": layout, "asc": asc, "size": size}
			if !w.Begin(desc) {
				continue
			}
			exp := model.Search(corp.Docs, model.Req{Q: q, From: from, To: to, Asc: asc, Limit: size, Interval: interval})
			expAggs := make([]model.AggRes, na)
			maxBins := 0
			for i, a := range aggs {
				expAggs[i] = model.Aggregate(exp.Docs, a)
				if len(expAggs[i].Bins) > maxBins {
					maxBins = len(expAggs[i].Bins)
				}
			}
			fail := func(class string, d map[string]any) {
				d["case"] = desc
				w.Violation("C06:"+class, d)
			}
			// (1) through the proxy search ingestor (fan-out + merge of shard results)
			pres, err := cl.Search(sdb.ProxyReq{Query: text, From: from, To: to, Size: size, Asc: asc, WithTotal: true, Interval: interval, Aggs: paggs})
			if err != nil {
				fail("proxy-error", map[string]any{"error": err.Error()})
				continue
			}
			if pres.Partial {
				fail("proxy-partial", map[string]any{})
				continue
			}
			bad := ""
			if interval > 0 && !histEqual(histFromQPR(pres.QPR), exp.Hist) {
				bad = fmt.Sprintf("histogram got=%v expected=%v", pres.QPR.Histogram, exp.Hist)
			}
			if bad == "" && pres.QPR.Total != exp.Total {
				bad = fmt.Sprintf("total got=%d expected=%d", pres.QPR.Total, exp.Total)
			}
			if bad == "" && !idsEqual(pres.IDs, exp.IDs) {
				bad = fmt.Sprintf("ids got=%s expected=%s", fmtIDs(pres.IDs, 10), fmtIDs(exp.IDs, 10))
			}
			if bad == "" && len(pres.QPR.Aggs) != na {
				bad = fmt.Sprintf("aggs count got=%d expected=%d", len(pres.QPR.Aggs), na)
			}
			for i := 0; bad == "" && i < na; i++ {
				if s := compareSamples(expAggs[i], aggs[i], pres.QPR.Aggs[i].SamplesByBin, pres.QPR.Aggs[i].NotExists); s != "" {
					bad = fmt.Sprintf("agg %d (%s): %s", i, fn[i], s)
				}
			}
			if bad == "" {
				rendered := pres.QPR.Aggregate(aggArgs(aggs))
				for i := 0; bad == "" && i < na; i++ {
					if s := compareBuckets(expAggs[i], aggs[i], rendered[i]); s != "" {
						bad = fmt.Sprintf("rendered agg %d (%s): %s", i, fn[i], s)
					}
				}
			}
			if bad == "" && interval > 0 {
				// the histogram on its own (no total, no aggregation, a small page): counting must not stop at the page size
				hres, err := cl.Search(sdb.ProxyReq{Query: text, From: from, To: to, Size: size, Asc: asc, Interval: interval})
				w.Count("histogram_only_requests", 1)
				switch {
				case err != nil:
					bad = "histogram-only request failed: " + err.Error()
				case !histEqual(histFromQPR(hres.QPR), exp.Hist):
					bad = fmt.Sprintf("histogram-only request (size=%d, no total): got=%v expected=%v", size, hres.QPR.Histogram, exp.Hist)
				case !idsEqual(hres.IDs, exp.IDs):
					bad = fmt.Sprintf("histogram-only request ids got=%s expected=%s", fmtIDs(hres.IDs, 10), fmtIDs(exp.IDs, 10))
				}
			}
			if bad != "" {
				fail("wrong-aggregate:proxy", map[string]any{"diff": bad})
				continue
			}
			// (2) per-fraction partial results straight from the stores, merged in seeded orders/groupings
			resps := make([]*pb.SearchResponse, 0, shards)
			for s := 0; s < shards && bad == ""; s++ {
				req := sdb.SearchReq{Query: text, SeqQL: cl.SeqQL, From: from, To: to, Size: size, Asc: asc, WithTotal: true, Interval: interval, Aggs: pbaggs}
				resp, err := cl.Stores[s][0].S.GrpcV1().Search(sdb.Ctx(cl.SeqQL), req.Proto())
				if err != nil {
					bad = "store search error: " + err.Error()
					break
				}
				resps = append(resps, resp)
			}
			if bad != "" {
				fail("store-error", map[string]any{"error": bad})
				continue
			}
			trees := 6
			for t := 0; t < trees && bad == ""; t++ {
				m := mergeTree(qr, resps, size, interval, asc, na)
				w.Count("merge_trees", 1)
				if interval > 0 && !histEqual(histFromQPR(m), exp.Hist) {
					bad = fmt.Sprintf("tree %d histogram got=%v expected=%v", t, m.Histogram, exp.Hist)
				}
				if bad == "" && m.Total != exp.Total {
					bad = fmt.Sprintf("tree %d total got=%d expected=%d", t, m.Total, exp.Total)
				}
				for i := 0; bad == "" && i < na; i++ {
					if s := compareSamples(expAggs[i], aggs[i], m.Aggs[i].SamplesByBin, m.Aggs[i].NotExists); s != "" {
						bad = fmt.Sprintf("tree %d agg %d (%s): %s", t, i, fn[i], s)
					}
				}
				if bad == "" {
					rendered := m.Aggregate(aggArgs(aggs))
					for i := 0; bad == "" && i < na; i++ {
						if s := compareBuckets(expAggs[i], aggs[i], rendered[i]); s != "" {
							bad = fmt.Sprintf("tree %d rendered agg %d (%s): %s", t, i, fn[i], s)
						}
					}
				}
			}
			if bad != "" {
				fail("wrong-aggregate:merge-order", map[string]any{"diff": bad})
				continue
			}
			w.Count("aggregations", int64(na))
			w.Count("matching_docs", int64(exp.Total))
			nontrivial := exp.Total >= 2 && maxBins >= 2
			if nontrivial && w.WantSample() {
				w.Sample(map[string]any{"case": desc, "matching": exp.Total, "bins_max": maxBins})
			}
			ic := "noint"
			if interval > 0 {
				ic = "hist"
			}
			w.Held(strings.Join(fn, ",")+"|"+ic+"|"+fmt.Sprintf("s%d", shards)+"|"+strings.Join(forms, ""), nontrivial)
		}
		cl.Stop()
	}
}
