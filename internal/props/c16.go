package props

import (
	"bytes"
	"context"
	"errors"
	"fmt"
	"io"
	"os"
	"sort"
	"strings"
	"sync"
	"time"

	"google.golang.org/grpc"
	"google.golang.org/protobuf/types/known/emptypb"

	"github.com/ozontech/seq-db/consts"
	"github.com/ozontech/seq-db/disk"
	pb "github.com/ozontech/seq-db/pkg/storeapi"
	"github.com/ozontech/seq-db/proxy/search"
	"github.com/ozontech/seq-db/proxy/stores"
	"github.com/ozontech/seq-db/seq"

	"verif/internal/gen"
	"verif/internal/h"
	"verif/internal/model"
)

// C16 — proxy reads degrade honestly: complete if all shards answer, else marked partial.

func init() {
	h.Register(&h.Prop{
		ID:    "C16",
		Level: "fault_enumeration",
		Rule: "case = (topology: 1..3 hot shards x 1..3 replicas, optional long-term tier; per-host behaviour of the search call: ok / error / wants-old-data / too-many-fractions; per-host behaviour of the fetch stream: ok / error / breaks after k documents / missing / extra / reordered documents; request with offset/size/order); " +
			"the real search.Ingestor runs over scripted fake stores that answer from the reference model; exhaustive over the search alphabet for topologies up to 2x2 (+1x1 long-term), seeded beyond and for fetch faults; " +
			"oracle from the recorded responses: A = shards with an answering replica; outcome = error, or IDs = page of the de-duplicated merge over A, flagged partial iff some shard is outside A (never an unflagged incomplete result); " +
			"wants-old-data => the long-term stores were consulted; document i is the document of ID i, or empty, and not empty when its store's stream carried every requested document in order (flawless, or with an extra document nobody asked for). " +
			"non-trivial = at least one shard answered and at least one fault was injected; distinct = (topology, behaviour assignment)",
		Assumptions: []string{"fake stores answer instantly and ignore cancellation; when several shards return different special codes the order in which the proxy sees them is scheduler-dependent and either documented outcome is accepted"},
		Batches:     tiered(320, 5760),
		Run:         runC16,
		Timeout:     timeoutFor(3*time.Minute, 40*time.Minute),
	})
}

type c16Host struct {
	pb.StoreApiClient
	name     string
	docs     []*model.Doc
	search   string // ok | err | old | toomany
	fetch    string // ok | err | break | missing | extra | reordered
	fetchK   int
	mu       sync.Mutex
	searches int
	fetches  int
	lastResp []model.ID
	q        *model.Q
}

func (f *c16Host) Search(ctx context.Context, in *pb.SearchRequest, _ ...grpc.CallOption) (*pb.SearchResponse, error) {
	f.mu.Lock()
	defer f.mu.Unlock()
	f.searches++
	switch f.search {
	case "err":
		return nil, fmt.Errorf("scripted search failure on %s", f.name)
	case "old":
		return &pb.SearchResponse{Code: pb.SearchErrorCode_INGESTOR_QUERY_WANTS_OLD_DATA}, nil
	case "toomany":
		return &pb.SearchResponse{Code: pb.SearchErrorCode_TOO_MANY_FRACTIONS_HIT}, nil
	}
	res := model.Search(f.docs, model.Req{Q: f.q, From: uint64(in.From), To: uint64(in.To), Asc: in.Order == pb.Order_ORDER_ASC, Limit: int(in.Size + in.Offset)})
	resp := &pb.SearchResponse{Total: res.Total}
	for _, id := range res.IDs {
		resp.IdSources = append(resp.IdSources, &pb.SearchResponse_IdWithHint{Id: &pb.SearchResponse_Id{Mid: id.MID, Rid: id.RID}, Hint: "frac-" + f.name})
	}
	f.lastResp = res.IDs
	return resp, nil
}

type c16Stream struct {
	grpc.ClientStream
	items []*pb.BinaryData
	pos   int
	brk   int // >=0: error after this many items
}

func (s *c16Stream) Recv() (*pb.BinaryData, error) {
	if s.brk >= 0 && s.pos >= s.brk {
		return nil, fmt.Errorf("scripted stream failure after %d documents", s.brk)
	}
	if s.pos >= len(s.items) {
		return nil, io.EOF
	}
	it := s.items[s.pos]
	s.pos++
	return it, nil
}

func c16Block(id model.ID, body []byte) *pb.BinaryData {
	b := disk.PackDocBlock(body, nil)
	b.SetExt1(id.MID)
	b.SetExt2(id.RID)
	return &pb.BinaryData{Data: b}
}

func (f *c16Host) Fetch(ctx context.Context, in *pb.FetchRequest, _ ...grpc.CallOption) (pb.StoreApi_FetchClient, error) {
	f.mu.Lock()
	defer f.mu.Unlock()
	f.fetches++
	if f.fetch == "err" {
		return nil, fmt.Errorf("scripted fetch failure on %s", f.name)
	}
	byID := map[string]*model.Doc{}
	for _, d := range f.docs {
		byID[seq.ID{MID: seq.MID(d.ID.MID), RID: seq.RID(d.ID.RID)}.String()] = d
	}
	var items []*pb.BinaryData
	for _, ih := range in.IdsWithHints {
		id, _ := seq.FromString(ih.Id)
		mid := model.ID{MID: uint64(id.MID), RID: uint64(id.RID)}
		if d := byID[ih.Id]; d != nil {
			items = append(items, c16Block(mid, d.Body))
			if os.Getenv("VERIF_REPLAY") != "" {
				fmt.Fprintf(os.Stderr, "  %s has %s len=%d\n", f.name, ih.Id, len(d.Body))
			}
		} else {
			if os.Getenv("VERIF_REPLAY") != "" {
				fmt.Fprintf(os.Stderr, "  %s LACKS %s\n", f.name, ih.Id)
			}
			items = append(items, c16Block(mid, nil))
		}
	}
	if os.Getenv("VERIF_REPLAY") != "" {
		fmt.Fprintf(os.Stderr, "FETCH %s behaviour=%s k=%d ids=", f.name, f.fetch, f.fetchK)
		for _, ih := range in.IdsWithHints {
			id, _ := seq.FromString(ih.Id)
			fmt.Fprintf(os.Stderr, "%d/%d ", id.MID, id.RID)
		}
		fmt.Fprintln(os.Stderr)
	}
	st := &c16Stream{items: items, brk: -1}
	switch f.fetch {
	case "break":
		st.brk = min(f.fetchK, len(items))
	case "missing":
		if len(items) > 0 {
			k := f.fetchK % len(items)
			st.items = append(append([]*pb.BinaryData{}, items[:k]...), items[k+1:]...)
		}
	case "extra":
		k := 0
		if len(items) > 0 {
			k = f.fetchK % (len(items) + 1)
		}
		extra := c16Block(model.ID{MID: 42, RID: 4242}, []byte(`{"extra":"document nobody asked for"}`))
		st.items = append(append(append([]*pb.BinaryData{}, items[:k]...), extra), items[k:]...)
	case "reordered":
		if len(items) > 1 {
			k := f.fetchK % (len(items) - 1)
			st.items = append([]*pb.BinaryData{}, items...)
			st.items[k], st.items[k+1] = st.items[k+1], st.items[k]
		}
	}
	return st, nil
}

func (f *c16Host) Bulk(context.Context, *pb.BulkRequest, ...grpc.CallOption) (*emptypb.Empty, error) {
	return &emptypb.Empty{}, nil
}
func (f *c16Host) Status(context.Context, *pb.StatusRequest, ...grpc.CallOption) (*pb.StatusResponse, error) {
	return &pb.StatusResponse{}, nil
}

type c16Topo struct{ hs, hr, cs, cr int }

func (t c16Topo) String() string { return fmt.Sprintf("hot%dx%d cold%dx%d", t.hs, t.hr, t.cs, t.cr) }

var c16SearchAlpha = []string{"ok", "err", "old", "toomany"}
var c16FetchAlpha = []string{"ok", "err", "break", "missing", "extra", "reordered"}

func runC16(w *h.W, batch int) {
	r := w.Rng()
	nb := nbOf("C16", w.Tier)
	corp := gen.MakeCorpus(r, gen.CorpusOpt{N: r.Range(20, 120), Vocab: 3, MIDSpread: r.LogInt(3, 200), MaxToks: 1, Tag: fmt.Sprintf("b%d", batch)})
	// exhaustive over the search alphabet
	small := []c16Topo{{1, 1, 0, 0}, {1, 2, 0, 0}, {2, 1, 0, 0}, {2, 2, 0, 0}, {1, 1, 1, 1}, {2, 1, 1, 1}, {1, 2, 1, 1}, {2, 2, 1, 1}}
	idx := 0
	for _, topo := range small {
		hosts := topo.hs*topo.hr + topo.cs*topo.cr
		total := 1
		for i := 0; i < hosts; i++ {
			total *= len(c16SearchAlpha)
		}
		for code := 0; code < total; code++ {
			idx++
			if idx%nb != batch%nb {
				continue
			}
			sb := make([]string, hosts)
			fb := make([]string, hosts)
			c := code
			for i := range sb {
				sb[i] = c16SearchAlpha[c%len(c16SearchAlpha)]
				c /= len(c16SearchAlpha)
				fb[i] = "ok"
			}
			c16Case(w, r.Fork(), corp, topo, sb, fb, "exhaustive-search")
		}
	}
	// seeded: larger topologies, fetch faults
	n := 250
	if !w.Quick() {
		n = 800
	}
	for i := 0; i < n; i++ {
		sr := r.Fork()
		topo := c16Topo{sr.Range(1, 3), sr.Range(1, 3), 0, 0}
		if sr.Chance(1, 3) {
			topo.cs, topo.cr = sr.Range(1, 2), sr.Range(1, 2)
		}
		hosts := topo.hs*topo.hr + topo.cs*topo.cr
		sb, fb := make([]string, hosts), make([]string, hosts)
		pFault := h.Pick(sr, []int{0, 15, 40})
		for j := range sb {
			sb[j], fb[j] = "ok", "ok"
			if sr.Intn(100) < pFault {
				sb[j] = h.Pick(sr, []string{"err", "err", "err", "old", "toomany"})
			}
			if sr.Chance(1, 2) {
				fb[j] = h.Pick(sr, c16FetchAlpha[1:])
			}
		}
		c16Case(w, sr, corp, topo, sb, fb, "seeded")
	}
}

func c16Case(w *h.W, r *h.Rng, corp *gen.Corpus, topo c16Topo, sb, fb []string, mode string) {
	// configuration variant: replicas of a shard tried in random order. The outcome of a shard is then order-independent only
	// when no replica gives a fail-fast answer, so such cases use the behaviours ok / error only (one case in five).
	shuffle := mode == "seeded" && r.Chance(1, 5)
	if shuffle {
		sb = append([]string{}, sb...)
		for i := range sb {
			if sb[i] != "ok" {
				sb[i] = "err"
			}
		}
		mode = "seeded+shuffled-replicas"
	}
	desc := map[string]any{"topology": topo.String(), "search_behaviour(per host)": strings.Join(sb, ","), "fetch_behaviour(per host)": strings.Join(fb, ","), "mode": mode}
	q := corp.Query(r, gen.QueryOpt{MaxDepth: 1})
	if r.Bool() {
		q = &model.Q{Op: "all"}
	}
	asc := r.Bool()
	size, offset := r.Range(1, 15), h.Pick(r, []int{0, 0, 1, 5})
	desc["request"] = fmt.Sprintf("shape=%s asc=%v size=%d offset=%d", q.Shape(), asc, size, offset)
	if !w.Begin(desc) {
		return
	}
	clients := map[string]pb.StoreApiClient{}
	var all []*c16Host
	mk := func(prefix string, shards, reps, base int) (*stores.Stores, [][]*c16Host) {
		st := &stores.Stores{Shards: [][]string{}, Vers: []string{}}
		parts := make([][]*model.Doc, shards)
		for _, d := range corp.Docs {
			s := r.Intn(max(shards, 1))
			if shards > 0 {
				parts[s] = append(parts[s], d)
				if shards > 1 && r.Chance(1, 8) {
					parts[(s+1)%shards] = append(parts[(s+1)%shards], d) // the same document on two shards
				}
			}
		}
		var tier [][]*c16Host
		for s := 0; s < shards; s++ {
			var names []string
			var hs []*c16Host
			for p := 0; p < reps; p++ {
				i := base + s*reps + p
				hst := &c16Host{name: fmt.Sprintf("%s-%d-%d", prefix, s, p), docs: parts[s], search: sb[i], fetch: fb[i], fetchK: r.Intn(8), q: q}
				clients[hst.name] = hst
				names = append(names, hst.name)
				hs = append(hs, hst)
				all = append(all, hst)
			}
			st.Shards = append(st.Shards, names)
			st.Vers = append(st.Vers, "v")
			tier = append(tier, hs)
		}
		return st, tier
	}
	hot, hotTier := mk("hot", topo.hs, topo.hr, 0)
	cold, coldTier := mk("cold", topo.cs, topo.cr, topo.hs*topo.hr)
	empty := &stores.Stores{Shards: [][]string{}, Vers: []string{}}
	ing := search.NewIngestor(search.Config{HotStores: hot, HotReadStores: empty, ReadStores: cold, WriteStores: cold, ShuffleReplicas: shuffle}, clients)
	ord := seq.DocsOrderDesc
	if asc {
		ord = seq.DocsOrderAsc
	}
	sr := &search.SearchRequest{Q: []byte("irrelevant:the fake stores hold the query tree"), From: 0, To: seq.MID(1 << 62), Size: size, Offset: offset, WithTotal: true, ShouldFetch: true, Order: ord}
	var qpr *seq.QPR
	var it search.DocsIterator
	var err error
	var docs [][]byte
	pn := h.Guard(func() {
		qpr, it, _, err = ing.Search(context.Background(), sr, nil)
		if qpr != nil && it != nil && (err == nil || errors.Is(err, consts.ErrPartialResponse)) {
			for range qpr.IDs {
				d, derr := it.Next()
				if os.Getenv("VERIF_REPLAY") != "" {
					fmt.Fprintf(os.Stderr, "NEXT id=%d/%d src=%d len=%d err=%v\n", d.ID.MID, d.ID.RID, d.Source, len(d.Data), derr)
				}
				docs = append(docs, d.Data)
			}
		}
	})
	w.Count("proxy_searches", 1)
	// ---- oracle over what the fake stores were asked and answered
	skippedAnswering := ""
	evalTier := func(tier [][]*c16Host) (answered []*c16Host, missing int, special string) {
		for _, shard := range tier {
			var ans *c16Host
			if shuffle {
				// any order of the replicas (behaviours ok / error only): the shard answers iff some replica would
				for _, hst := range shard {
					if hst.search == "ok" && hst.searches > 0 {
						ans = hst
						break
					}
				}
				if ans == nil {
					for _, hst := range shard {
						if hst.search == "ok" {
							skippedAnswering = hst.name
						}
					}
					missing++
				} else {
					answered = append(answered, ans)
				}
				continue
			}
			for _, hst := range shard {
				if hst.searches == 0 {
					break // not reached (an earlier replica answered or short-circuited)
				}
				if hst.search == "ok" {
					ans = hst
					break
				}
				if hst.search == "old" || hst.search == "toomany" {
					if special == "" || special == hst.search {
						special = hst.search
					} else {
						special = "both"
					}
					break
				}
			}
			if ans != nil {
				answered = append(answered, ans)
			} else {
				missing++
			}
		}
		return
	}
	bad := ""
	class := ""
	hotAns, hotMissing, hotSpecial := evalTier(hotTier)
	if skippedAnswering != "" && pn == "" {
		bad = fmt.Sprintf("replica-skipped: replica %s would have answered but was never asked although no other replica of its shard answered (replicas tried in shuffled order)", skippedAnswering)
	}
	partial := err != nil && errors.Is(err, consts.ErrPartialResponse)
	failed := pn != "" || (err != nil && !partial)
	var expectFrom []*c16Host
	expectMissing := 0
	switch {
	case pn != "":
		w.Count("panics_at_call_boundary", 1)
		w.Distinct("panic_messages", errSig(strings.SplitN(pn, "\n", 2)[0]))
		if os.Getenv("VERIF_REPLAY") != "" || w.WantSample() {
			w.Sample(map[string]any{"case": desc, "panic_at_call_boundary": pn[:min(len(pn), 1500)]})
		}
		class = "error(panic)"
	case hotSpecial == "toomany":
		if !failed {
			bad = "unflagged: a hot store reported too-many-fractions but the search did not fail"
		}
		class = "error(toomany)"
	case hotSpecial == "old" || hotSpecial == "both":
		coldCalled := false
		for _, shard := range coldTier {
			for _, hst := range shard {
				if hst.searches > 0 {
					coldCalled = true
				}
			}
		}
		if hotSpecial == "both" && failed {
			class = "error(both-codes)"
			break
		}
		if len(coldTier) == 0 {
			if !failed {
				bad = "old-data: a hot store declared the range older than its retention, there is no long-term tier, and yet the search succeeded"
			}
			class = "error(old,no-cold)"
			break
		}
		if !coldCalled {
			bad = "old-data: a hot store declared the range older than its retention but the long-term stores were not consulted"
			break
		}
		coldAns, coldMissing, coldSpecial := evalTier(coldTier)
		if coldSpecial != "" || len(coldAns) == 0 {
			if !failed {
				bad = "unflagged: no long-term shard delivered a result but the search did not fail"
			}
			class = "error(cold)"
			break
		}
		expectFrom, expectMissing = coldAns, coldMissing
		class = "cold"
	case len(hotAns) == 0:
		if !failed {
			bad = "unflagged: no shard answered but the search did not fail"
		}
		class = "error(all-failed)"
	default:
		expectFrom, expectMissing = hotAns, hotMissing
		class = "hot"
	}
	if bad == "" && expectFrom != nil {
		if failed {
			// the statement allows failing with an error; tally it
			w.Count("failed_although_some_shard_answered(legal)", 1)
			class += "+failed"
		} else {
			// merge of the recorded answers
			var merged []model.ID
			seen := map[model.ID]bool{}
			for _, hst := range expectFrom {
				for _, id := range hst.lastResp {
					if !seen[id] {
						seen[id] = true
						merged = append(merged, id)
					}
				}
			}
			sort.Slice(merged, func(i, j int) bool {
				if asc {
					return merged[i].Less(merged[j])
				}
				return merged[j].Less(merged[i])
			})
			if len(merged) > offset+size {
				merged = merged[:offset+size]
			}
			if len(merged) > offset {
				merged = merged[offset:]
			} else {
				merged = nil
			}
			var got []model.ID
			for _, id := range qpr.IDs {
				got = append(got, model.ID{MID: uint64(id.ID.MID), RID: uint64(id.ID.RID)})
			}
			switch {
			case !idsEqual(got, merged):
				bad = fmt.Sprintf("wrong-ids: got [%s] expected the page of the merge over the answering shards [%s]", fmtIDs(got, 12), fmtIDs(merged, 12))
			case expectMissing > 0 && !partial:
				bad = fmt.Sprintf("unflagged: %d shard(s) did not answer but the result is presented as complete", expectMissing)
			case expectMissing == 0 && partial:
				bad = "false-partial: every shard answered but the result is flagged partial"
			}
			// documents
			if bad == "" {
				byID := map[model.ID]*model.Doc{}
				for _, d := range corp.Docs {
					byID[d.ID] = d
				}
				if len(docs) != len(qpr.IDs) {
					bad = fmt.Sprintf("wrong-docs: %d documents for %d ids", len(docs), len(qpr.IDs))
				}
				for i := 0; bad == "" && i < len(qpr.IDs); i++ {
					want := byID[got[i]]
					if len(docs[i]) == 0 {
						// empty is only legal if the delivering store's stream was faulty; the hint names the store that answered for this ID
						src := strings.TrimPrefix(qpr.IDs[i].Hint, "frac-")
						// (a stream that carries every requested document in order plus one nobody asked for did deliver them)
						if hst, ok := clients[src].(*c16Host); ok && (hst.fetch == "ok" || hst.fetch == "extra") {
							var order []string
							for _, x := range qpr.IDs {
								order = append(order, strings.TrimPrefix(x.Hint, "frac-"))
							}
							bad = fmt.Sprintf("wrong-docs: document %d (%s) is empty although the fetch stream of its store %s carried every requested document (delivering stores by position: %v)", i, got[i], src, order)
						}
						continue
					}
					if want == nil || !bytes.Equal(docs[i], want.Body) {
						bad = fmt.Sprintf("wrong-docs: position %d carries %.80q, which is not the document of ID %s", i, docs[i], got[i])
					}
				}
				w.Count("documents_judged", int64(len(docs)))
			}
			if partial {
				class += "+partial"
			}
		}
	}
	if bad != "" {
		w.Violation("C16:"+strings.SplitN(bad, ":", 2)[0], map[string]any{"diff": bad, "case": desc, "error": fmt.Sprint(err), "panic": pn})
		return
	}
	faults := 0
	for i := range sb {
		if sb[i] != "ok" || fb[i] != "ok" {
			faults++
		}
	}
	nt := faults > 0 && expectFrom != nil
	if nt && w.WantSample() {
		w.Sample(map[string]any{"case": desc, "outcome": class, "error": fmt.Sprint(err)})
	}
	w.Count("outcome:"+class, 1)
	w.Held(topo.String()+"|"+strings.Join(sb, ",")+"|"+strings.Join(fb, ","), nt)
}
