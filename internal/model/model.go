// Package model is the reference model the differential oracles compare seq-db with. It is deliberately naive
// (scan everything, sort everything) and shares no code with the packages it judges.
package model

import (
	"fmt"
	"math"
	"sort"
	"strconv"
	"strings"
)

type ID struct{ MID, RID uint64 }

func (a ID) Less(b ID) bool {
	if a.MID != b.MID {
		return a.MID < b.MID
	}
	return a.RID < b.RID
}

func (a ID) String() string { return fmt.Sprintf("%d/%d", a.MID, a.RID) }

type Tok struct{ F, V string }

// Doc is one stored document: its ID, the exact bytes ingested, and the indexed tokens (without the implicit _all_).
type Doc struct {
	ID   ID
	Body []byte
	Toks []Tok
}

// Q is a query tree.
type Q struct {
	Op           string // and | or | not | lit | in | range | all
	Kids         []*Q
	Field        string
	Pat          string   // lit: glob with '*' wildcards, every other byte literal
	Pats         []string // in
	Lo, Hi       string
	LoInc, HiInc bool
	LoUnb, HiUnb bool
}

// Glob reports whether tok matches pat where '*' matches any (possibly empty) byte string. Plain DP.
func Glob(pat, tok string) bool {
	// dp[j] : pat[:i] matches tok[:j]
	prev := make([]bool, len(tok)+1)
	cur := make([]bool, len(tok)+1)
	prev[0] = true
	for i := 1; i <= len(pat); i++ {
		c := pat[i-1]
		for j := range cur {
			cur[j] = false
		}
		if c == '*' {
			cur[0] = prev[0]
			for j := 1; j <= len(tok); j++ {
				cur[j] = prev[j] || cur[j-1]
			}
		} else {
			for j := 1; j <= len(tok); j++ {
				cur[j] = prev[j-1] && tok[j-1] == c
			}
		}
		prev, cur = cur, prev
	}
	return prev[len(tok)]
}

func finite(s string) (float64, bool) {
	f, err := strconv.ParseFloat(s, 64)
	if err != nil || math.IsNaN(f) || math.IsInf(f, 0) {
		return 0, false
	}
	return f, true
}

// RangeMatch: numeric comparison when every given end is a finite number (non-numeric tokens never match), else string comparison.
func (q *Q) RangeMatch(tok string) bool {
	numeric := true
	var lo, hi float64
	if !q.LoUnb {
		v, ok := finite(q.Lo)
		if !ok {
			numeric = false
		}
		lo = v
	}
	if !q.HiUnb {
		v, ok := finite(q.Hi)
		if !ok {
			numeric = false
		}
		hi = v
	}
	if numeric {
		v, ok := finite(tok)
		if !ok {
			return false
		}
		if !q.LoUnb {
			if q.LoInc {
				if !(lo <= v) {
					return false
				}
			} else if !(lo < v) {
				return false
			}
		}
		if !q.HiUnb {
			if q.HiInc {
				if !(v <= hi) {
					return false
				}
			} else if !(v < hi) {
				return false
			}
		}
		return true
	}
	if !q.LoUnb {
		if q.LoInc {
			if !(q.Lo <= tok) {
				return false
			}
		} else if !(q.Lo < tok) {
			return false
		}
	}
	if !q.HiUnb {
		if q.HiInc {
			if !(tok <= q.Hi) {
				return false
			}
		} else if !(tok < q.Hi) {
			return false
		}
	}
	return true
}

func (q *Q) Match(d *Doc) bool {
	switch q.Op {
	case "all":
		return true
	case "and":
		for _, k := range q.Kids {
			if !k.Match(d) {
				return false
			}
		}
		return true
	case "or":
		for _, k := range q.Kids {
			if k.Match(d) {
				return true
			}
		}
		return false
	case "not":
		return !q.Kids[0].Match(d)
	case "lit":
		for _, t := range d.Toks {
			if t.F == q.Field && Glob(q.Pat, t.V) {
				return true
			}
		}
		return false
	case "in":
		for _, t := range d.Toks {
			if t.F != q.Field {
				continue
			}
			for _, p := range q.Pats {
				if Glob(p, t.V) {
					return true
				}
			}
		}
		return false
	case "range":
		for _, t := range d.Toks {
			if t.F == q.Field && q.RangeMatch(t.V) {
				return true
			}
		}
		return false
	}
	panic("model: unknown op " + q.Op)
}

// Shape is a compact signature of the tree shape (operators and leaf kinds, not values).
func (q *Q) Shape() string {
	switch q.Op {
	case "and", "or":
		s := make([]string, len(q.Kids))
		for i, k := range q.Kids {
			s[i] = k.Shape()
		}
		return q.Op[:1] + "(" + strings.Join(s, "") + ")"
	case "not":
		return "!" + q.Kids[0].Shape()
	case "lit":
		k := "L"
		if strings.Contains(q.Pat, "*") {
			switch {
			case q.Pat == "*":
				k = "W"
			case strings.HasPrefix(q.Pat, "*") && strings.HasSuffix(q.Pat, "*"):
				k = "I"
			case strings.HasPrefix(q.Pat, "*"):
				k = "S"
			case strings.HasSuffix(q.Pat, "*"):
				k = "P"
			default:
				k = "M"
			}
		}
		return k
	case "in":
		return "N"
	case "range":
		k := "R"
		if q.LoUnb || q.HiUnb {
			k = "U"
		}
		return k
	case "all":
		return "A"
	}
	return "?"
}

func (q *Q) Size() int {
	n := 1
	for _, k := range q.Kids {
		n += k.Size()
	}
	return n
}

// Req is a search request against the model.
type Req struct {
	Q         *Q
	From, To  uint64
	Asc       bool
	Limit     int
	WithTotal bool
	Interval  uint64 // histogram interval (0 = none)
}

type Res struct {
	IDs   []ID
	Total uint64 // number of matching documents (always computed; compare only when requested)
	Hist  map[uint64]uint64
	Docs  []*Doc // the matching documents in result order, before the limit cut
}

// Dedup keeps the first document of every ID (set semantics).
func Dedup(docs []*Doc) []*Doc {
	seen := make(map[ID]bool, len(docs))
	out := make([]*Doc, 0, len(docs))
	for _, d := range docs {
		if seen[d.ID] {
			continue
		}
		seen[d.ID] = true
		out = append(out, d)
	}
	return out
}

func Search(docs []*Doc, r Req) Res {
	var m []*Doc
	for _, d := range Dedup(docs) {
		if d.ID.MID < r.From || d.ID.MID > r.To {
			continue
		}
		if r.Q.Match(d) {
			m = append(m, d)
		}
	}
	sort.Slice(m, func(i, j int) bool {
		if r.Asc {
			return m[i].ID.Less(m[j].ID)
		}
		return m[j].ID.Less(m[i].ID)
	})
	res := Res{Total: uint64(len(m)), Docs: m}
	if r.Interval > 0 {
		res.Hist = map[uint64]uint64{}
		for _, d := range m {
			res.Hist[d.ID.MID-d.ID.MID%r.Interval]++
		}
	}
	n := len(m)
	if r.Limit < n {
		n = r.Limit
	}
	if n < 0 {
		n = 0
	}
	res.IDs = make([]ID, n)
	for i := 0; i < n; i++ {
		res.IDs[i] = m[i].ID
	}
	return res
}
