package model

import (
	"math"
	"sort"
)

// AggReq is one aggregation of a search request. Field/GroupBy name single-valued fields.
type AggReq struct {
	Func      string // count | unique | sum | min | max | avg | quantile
	Field     string
	GroupBy   string
	Quantiles []float64
	Interval  uint64 // 0 = no time bins
}

type BinKey struct {
	MID   uint64 // start of the time bin, 0 when there is no interval
	Group string
}

type BinVal struct {
	Total   int64
	Sum     float64
	SumAbs  float64
	Min     float64
	Max     float64
	Samples []float64 // sorted
}

// AggRes is what the matching documents say.
type AggRes struct {
	Bins             map[BinKey]*BinVal
	NotExistsByGroup map[string]int64 // stat functions: documents of that group (or "" without group-by) that lack the field
	NotExists        int64            // count/unique: documents without the group; stat+group: documents with field but without group
}

func first(d *Doc, field string) (string, bool) {
	for _, t := range d.Toks {
		if t.F == field {
			return t.V, true
		}
	}
	return "", false
}

func binStart(mid, interval uint64) uint64 {
	if interval == 0 {
		return 0
	}
	return mid - mid%interval
}

// Aggregate computes the aggregation directly from the matching documents.
func Aggregate(matching []*Doc, a AggReq) AggRes {
	res := AggRes{Bins: map[BinKey]*BinVal{}, NotExistsByGroup: map[string]int64{}}
	add := func(k BinKey, v float64, numeric bool) {
		b := res.Bins[k]
		if b == nil {
			b = &BinVal{Min: math.Inf(1), Max: math.Inf(-1)}
			res.Bins[k] = b
		}
		b.Total++
		if numeric {
			b.Sum += v
			b.SumAbs += math.Abs(v)
			if v < b.Min {
				b.Min = v
			}
			if v > b.Max {
				b.Max = v
			}
			b.Samples = append(b.Samples, v)
		}
	}
	switch a.Func {
	case "count":
		for _, d := range matching {
			g, ok := first(d, a.GroupBy)
			if !ok {
				res.NotExists++
				continue
			}
			add(BinKey{binStart(d.ID.MID, a.Interval), g}, 0, false)
		}
	case "unique":
		for _, d := range matching {
			g, ok := first(d, a.GroupBy)
			if !ok {
				res.NotExists++
				continue
			}
			k := BinKey{0, g}
			if res.Bins[k] == nil {
				res.Bins[k] = &BinVal{}
			}
		}
	default:
		for _, d := range matching {
			fv, hasF := first(d, a.Field)
			g, hasG := "", true
			if a.GroupBy != "" {
				g, hasG = first(d, a.GroupBy)
			}
			switch {
			case !hasF && !hasG:
			case !hasF:
				res.NotExistsByGroup[g]++
			case !hasG:
				res.NotExists++
			default:
				v, ok := finite(fv)
				if !ok {
					panic("model: aggregation over a non-numeric value " + fv)
				}
				add(BinKey{binStart(d.ID.MID, a.Interval), g}, v, true)
			}
		}
	}
	for _, b := range res.Bins {
		sort.Float64s(b.Samples)
	}
	return res
}

// Quantile: nearest-rank index floor((n-1)q+0.5) on the sorted samples; q=0 -> min, q=1 -> max.
func (b *BinVal) Quantile(q float64) float64 {
	if len(b.Samples) == 0 {
		return math.NaN()
	}
	if q == 0 {
		return b.Min
	}
	if q == 1 {
		return b.Max
	}
	return b.Samples[int(float64(len(b.Samples)-1)*q+0.5)]
}

// Value is the number the public result exposes for the bucket.
func (b *BinVal) Value(fn string, quantiles []float64) float64 {
	switch fn {
	case "count":
		return float64(b.Total)
	case "unique":
		return 0
	case "sum":
		return b.Sum
	case "min":
		return b.Min
	case "max":
		return b.Max
	case "avg":
		return b.Sum / float64(b.Total)
	case "quantile":
		return b.Quantile(quantiles[0])
	}
	panic("model: unknown agg func " + fn)
}

// Close reports whether two floats agree within the summation-order tolerance (1e-9 relative to scale).
func Close(a, b, scale float64) bool {
	if a == b {
		return true
	}
	if math.IsNaN(a) || math.IsNaN(b) {
		return math.IsNaN(a) && math.IsNaN(b)
	}
	return math.Abs(a-b) <= 1e-9*math.Max(1, scale)
}
