package model

import (
	"strings"
	"unicode"
)

// Chooser abstracts the PRNG used for stylistic choices while rendering (so model does not import the harness).
type Chooser interface {
	Intn(n int) int
}

type fixed int

func (f fixed) Intn(n int) int { return int(f) % n }

// Plain is a deterministic style: first alternative everywhere.
var Plain Chooser = fixed(0)

func legacyEscape(s string) string {
	var b strings.Builder
	for _, c := range s {
		switch c {
		case '(', ')', '{', '}', '[', ']', '"', '\\', ':':
			b.WriteByte('\\')
			b.WriteRune(c)
		case '*':
			b.WriteRune(c) // wildcard
		default:
			if unicode.IsSpace(c) {
				b.WriteByte('\\')
			}
			b.WriteRune(c)
		}
	}
	return b.String()
}

func legacyQuote(s string) string {
	var b strings.Builder
	b.WriteByte('"')
	for _, c := range s {
		switch c {
		case '"', '\\':
			b.WriteByte('\\')
			b.WriteRune(c)
		default:
			b.WriteRune(c) // '*' stays a wildcard
		}
	}
	b.WriteByte('"')
	return b.String()
}

func legacyValue(s string, ch Chooser) string {
	if s == "" {
		return `""`
	}
	if ch.Intn(3) == 1 {
		return legacyQuote(s)
	}
	return legacyEscape(s)
}

// legacyRangeEnd: a quoted empty string is the only way to write an empty bound.
func legacyRangeEnd(s string, unb bool, ch Chooser) string {
	if unb {
		return "*"
	}
	return legacyValue(s, ch)
}

func kw(word string, ch Chooser) string {
	switch ch.Intn(3) {
	case 1:
		return strings.ToUpper(word)
	}
	return word
}

// Legacy renders the query in the legacy (Lucene-like) language. in(...) is expanded to a disjunction.
func (q *Q) Legacy(ch Chooser) string { return q.legacy(ch, 0) }

// prec: 0 = top / inside parens, 1 = operand of OR, 2 = operand of AND, 3 = operand of NOT
func (q *Q) legacy(ch Chooser, prec int) string {
	wrap := func(s string, need bool) string {
		if need || ch.Intn(5) == 4 {
			return "(" + s + ")"
		}
		return s
	}
	switch q.Op {
	case "all":
		return "_all_:*"
	case "lit":
		return q.Field + ":" + legacyValue(q.Pat, ch)
	case "in":
		parts := make([]string, len(q.Pats))
		for i, p := range q.Pats {
			parts[i] = q.Field + ":" + legacyValue(p, ch)
		}
		return wrap(strings.Join(parts, " "+kw("or", ch)+" "), prec > 1 || (prec == 1 && false))
	case "range":
		l, r := "{", "}"
		if q.LoInc {
			l = "["
		}
		if q.HiInc {
			r = "]"
		}
		return q.Field + ":" + l + legacyRangeEnd(q.Lo, q.LoUnb, ch) + " " + kw("to", ch) + " " + legacyRangeEnd(q.Hi, q.HiUnb, ch) + r
	case "not":
		return wrap(kw("not", ch)+" "+q.Kids[0].legacy(ch, 3), prec > 3)
	case "and":
		parts := make([]string, len(q.Kids))
		for i, k := range q.Kids {
			parts[i] = k.legacy(ch, 2)
		}
		return wrap(strings.Join(parts, " "+kw("and", ch)+" "), prec > 2)
	case "or":
		parts := make([]string, len(q.Kids))
		for i, k := range q.Kids {
			parts[i] = k.legacy(ch, 1)
		}
		return wrap(strings.Join(parts, " "+kw("or", ch)+" "), prec > 1)
	}
	panic("render: unknown op " + q.Op)
}

func isSeqQLTokenRune(r rune) bool {
	return unicode.IsLetter(r) || unicode.IsDigit(r) || r == '_' || r == '.'
}

var seqqlReserved = map[string]bool{"or": true, "and": true, "not": true, "in": true, "to": true, "fields": true, "except": true}

func seqqlBareOK(seg string) bool {
	if seg == "" || seqqlReserved[strings.ToLower(seg)] {
		return false
	}
	for _, r := range seg {
		if !isSeqQLTokenRune(r) && r != '-' {
			return false
		}
	}
	return true
}

func seqqlQuoteSeg(seg string, quote byte) string {
	var b strings.Builder
	b.WriteByte(quote)
	for i := 0; i < len(seg); i++ {
		c := seg[i]
		switch {
		case c == quote || c == '\\':
			b.WriteByte('\\')
			b.WriteByte(c)
		case c == '*':
			b.WriteString(`\*`)
		case c == '\n':
			b.WriteString(`\n`)
		case c == '\t':
			b.WriteString(`\t`)
		default:
			b.WriteByte(c)
		}
	}
	b.WriteByte(quote)
	return b.String()
}

// SeqQLValue renders a glob pattern ('*' = wildcard) as a SeqQL value in one of the quoting styles.
func SeqQLValue(pat string, ch Chooser) string {
	if pat == "" {
		return `""`
	}
	style := ch.Intn(5)
	if !strings.Contains(pat, "*") {
		switch style {
		case 0:
			if seqqlBareOK(pat) {
				return pat
			}
			return seqqlQuoteSeg(pat, '"')
		case 1, 4:
			return seqqlQuoteSeg(pat, '"')
		case 2:
			return seqqlQuoteSeg(pat, '\'')
		case 3:
			if !strings.ContainsAny(pat, "`\r") {
				return "`" + pat + "`"
			}
			return seqqlQuoteSeg(pat, '"')
		}
	}
	// with wildcards
	if style == 1 || style == 2 {
		// whole value inside one quoted string: '*' is a wildcard there
		quote := byte('"')
		if style == 2 {
			quote = '\''
		}
		var b strings.Builder
		b.WriteByte(quote)
		for i := 0; i < len(pat); i++ {
			c := pat[i]
			switch {
			case c == quote || c == '\\':
				b.WriteByte('\\')
				b.WriteByte(c)
			default:
				b.WriteByte(c)
			}
		}
		b.WriteByte(quote)
		return b.String()
	}
	segs := strings.Split(pat, "*")
	var b strings.Builder
	for i, s := range segs {
		if i > 0 {
			b.WriteByte('*')
		}
		if s == "" {
			continue
		}
		switch {
		case style == 0 && seqqlBareOK(s):
			b.WriteString(s)
		case style == 3 && !strings.ContainsAny(s, "`\r"):
			b.WriteString("`" + s + "`")
		default:
			b.WriteString(seqqlQuoteSeg(s, '"'))
		}
	}
	return b.String()
}

func seqqlField(f string) string {
	if seqqlBareOK(f) {
		return f
	}
	return seqqlQuoteSeg(f, '"')
}

// SeqQL renders the query in SeqQL.
func (q *Q) SeqQL(ch Chooser) string { return q.seqql(ch, 0, 0) }

func (q *Q) seqql(ch Chooser, prec, depth int) string {
	wrap := func(s string, need bool) string {
		if need || ch.Intn(5) == 4 {
			return "(" + s + ")"
		}
		return s
	}
	switch q.Op {
	case "all":
		if depth == 0 && prec == 0 {
			return "*"
		}
		return "_all_:*"
	case "lit":
		return seqqlField(q.Field) + ":" + SeqQLValue(q.Pat, ch)
	case "in":
		parts := make([]string, len(q.Pats))
		for i, p := range q.Pats {
			parts[i] = SeqQLValue(p, ch)
		}
		return seqqlField(q.Field) + ":" + kw("in", ch) + "(" + strings.Join(parts, ", ") + ")"
	case "range":
		l, r := "(", ")"
		if q.LoInc {
			l = "["
		}
		if q.HiInc {
			r = "]"
		}
		lo, hi := "*", "*"
		if !q.LoUnb {
			lo = SeqQLValue(q.Lo, ch)
		}
		if !q.HiUnb {
			hi = SeqQLValue(q.Hi, ch)
		}
		sep := ", "
		if ch.Intn(4) == 3 {
			sep = " to "
		}
		return seqqlField(q.Field) + ":" + l + lo + sep + hi + r
	case "not":
		return wrap(kw("not", ch)+" "+q.Kids[0].seqql(ch, 3, depth+1), prec > 3)
	case "and":
		parts := make([]string, len(q.Kids))
		for i, k := range q.Kids {
			parts[i] = k.seqql(ch, 2, depth+1)
		}
		return wrap(strings.Join(parts, " "+kw("and", ch)+" "), prec > 2)
	case "or":
		parts := make([]string, len(q.Kids))
		for i, k := range q.Kids {
			parts[i] = k.seqql(ch, 1, depth+1)
		}
		return wrap(strings.Join(parts, " "+kw("or", ch)+" "), prec > 1)
	}
	panic("render: unknown op " + q.Op)
}
