package h

import (
	"encoding/json"
	"fmt"
	"os"
	"path/filepath"
	"runtime"
	"runtime/debug"
	"sort"
	"sync"
	"time"
)

// Verdict values of one case.
const (
	VHeld  = "held"
	VViol  = "viol"
	VInc   = "inc"
	VKnown = "known" // set by the orchestrator only
)

// Rec is one line of a worker's result log.
type Rec struct {
	T      string              `json:"t"`           // "E" end of case, "C" counters snapshot, "S" sample, "F" finished
	I      int                 `json:"i,omitempty"` // case index inside the batch
	V      string              `json:"v,omitempty"`
	Sig    string              `json:"s,omitempty"` // held: shape signature; viol: violation signature (matched against known findings)
	NT     bool                `json:"n,omitempty"` // non-trivial by the property's rule
	Detail json.RawMessage     `json:"d,omitempty"` // violation / inconclusive detail, or sample body
	Cnt    map[string]int64    `json:"c,omitempty"` // cumulative counters of this worker lifetime
	Sets   map[string][]string `json:"u,omitempty"` // cumulative distinct-value sets (bounded)
}

// W is the worker-side handle a property's RunBatch receives.
type W struct {
	Prop  string
	Tier  string
	Seed  uint64
	Batch int
	From  int    // skip cases with index < From (resume after a worker death)
	Only  int    // >= 0: run only this case (replay)
	Dir   string // scratch directory of this worker (removed by the orchestrator)
	Race  bool   // this binary was built with -race

	mu         sync.Mutex
	out        *os.File
	wal        string
	idx        int
	open       bool
	cnt        map[string]int64
	sets       map[string]map[string]struct{}
	samples    int
	MaxSamples int
	sinceSnap  int
}

func NewW(prop, tier string, seed uint64, batch, from, only int, dir, outPath string) (*W, error) {
	f, err := os.OpenFile(outPath, os.O_CREATE|os.O_WRONLY|os.O_APPEND, 0o644)
	if err != nil {
		return nil, err
	}
	return &W{Prop: prop, Tier: tier, Seed: seed, Batch: batch, From: from, Only: only, Dir: dir,
		out: f, wal: outPath + ".wal", cnt: map[string]int64{}, sets: map[string]map[string]struct{}{}, MaxSamples: 2, idx: -1}, nil
}

func (w *W) Quick() bool { return w.Tier != "thorough" }

// Rng returns the stream of this batch (path: property, batch, extra...).
func (w *W) Rng(path ...uint64) *Rng {
	p := append([]uint64{StrKey(w.Prop), uint64(w.Batch)}, path...)
	return NewRng(w.Seed, p...)
}

func (w *W) write(r Rec) {
	b, _ := json.Marshal(r)
	b = append(b, '\n')
	w.out.Write(b)
}

// Begin opens the next case. desc is written to the write-ahead file before the case runs so that the
// orchestrator can name the in-flight case if this process dies. Returns false when the case must be skipped.
func (w *W) Begin(desc any) bool {
	w.mu.Lock()
	defer w.mu.Unlock()
	if w.open {
		panic("harness: Begin while a case is open")
	}
	w.idx++
	if w.idx < w.From || (w.Only >= 0 && w.idx != w.Only) {
		return false
	}
	b, _ := json.Marshal(map[string]any{"i": w.idx, "desc": desc})
	os.WriteFile(w.wal, b, 0o644)
	w.open = true
	return true
}

// Idx is the index of the current (or last) case.
func (w *W) Idx() int { return w.idx }

func (w *W) end(r Rec) {
	w.mu.Lock()
	defer w.mu.Unlock()
	if !w.open {
		panic("harness: End without Begin")
	}
	w.open = false
	r.T, r.I = "E", w.idx
	w.write(r)
	w.sinceSnap++
	if w.sinceSnap >= 200 {
		w.snapLocked()
	}
}

// Held closes the current case as held. sig is the shape signature used for distinct counting;
// nontrivial says whether the case counts as non-trivial by the property's stated rule.
func (w *W) Held(sig string, nontrivial bool) { w.end(Rec{V: VHeld, Sig: sig, NT: nontrivial}) }

// Violation closes the current case as violated. sig identifies the failure class (matched against
// known_findings.json); detail goes to the replay file.
func (w *W) Violation(sig string, detail any) {
	b, _ := json.Marshal(detail)
	w.end(Rec{V: VViol, Sig: sig, Detail: b})
}

func (w *W) Inconclusive(reason string) {
	b, _ := json.Marshal(reason)
	w.end(Rec{V: VInc, Sig: reason, Detail: b})
}

// Sample records a fully written-out case for the evidence file (bounded per worker).
func (w *W) Sample(v any) {
	w.mu.Lock()
	defer w.mu.Unlock()
	if w.samples >= w.MaxSamples {
		return
	}
	w.samples++
	b, _ := json.Marshal(v)
	w.write(Rec{T: "S", Detail: b})
}

func (w *W) WantSample() bool {
	w.mu.Lock()
	defer w.mu.Unlock()
	return w.samples < w.MaxSamples
}

func (w *W) Count(key string, n int64) {
	w.mu.Lock()
	w.cnt[key] += n
	w.mu.Unlock()
}

// Distinct adds a value to a named set whose cardinality is reported in the evidence (bounded at 4096 per worker).
func (w *W) Distinct(key, val string) {
	w.mu.Lock()
	s := w.sets[key]
	if s == nil {
		s = map[string]struct{}{}
		w.sets[key] = s
	}
	if len(s) < 4096 {
		s[val] = struct{}{}
	}
	w.mu.Unlock()
}

func (w *W) snapLocked() {
	w.sinceSnap = 0
	sets := map[string][]string{}
	for k, s := range w.sets {
		l := make([]string, 0, len(s))
		for v := range s {
			l = append(l, v)
		}
		sort.Strings(l)
		sets[k] = l
	}
	w.write(Rec{T: "C", Cnt: w.cnt, Sets: sets})
}

// Finish writes the final counters and the finished marker.
func (w *W) Finish() {
	w.mu.Lock()
	defer w.mu.Unlock()
	w.snapLocked()
	w.write(Rec{T: "F"})
	os.Remove(w.wal)
	w.out.Close()
}

// AbortWith closes the open case as a violation, finishes the worker's log and ends the process: for monitors that
// detect a state the workload cannot return from (goroutines blocked for good). The rest of the batch is not run.
func (w *W) AbortWith(sig string, detail any) {
	w.Violation(sig, detail)
	w.Finish()
	os.Exit(0)
}

// StallWatch is a bounded-progress monitor for concurrent workloads: while active() holds, progress() must change at least
// once in every window. If it does not, the run is stuck (e.g. waiters on an event that will never come): the case is
// closed as a violation with a dump of all goroutines. The window is long against the cost of one operation (micro- to
// milliseconds), and the monitor lives in the same process, so a machine-wide pause stops it as well. stop() ends it.
func (w *W) StallWatch(sig string, window time.Duration, progress func() int64, active func() bool, desc any) (stop func()) {
	quit := make(chan struct{})
	go func() {
		last, since := progress(), time.Now()
		t := time.NewTicker(time.Second)
		defer t.Stop()
		for {
			select {
			case <-quit:
				return
			case <-t.C:
			}
			if !active() {
				last, since = progress(), time.Now()
				continue
			}
			if p := progress(); p != last {
				last, since = p, time.Now()
				continue
			}
			if time.Since(since) >= window {
				buf := make([]byte, 1<<20)
				buf = buf[:runtime.Stack(buf, true)]
				w.AbortWith(sig, map[string]any{"diff": fmt.Sprintf("no operation completed for %s although the workload is not finished (progress counter stuck at %d)", window, last), "run": desc, "goroutines": string(buf[:min(len(buf), 20000)])})
			}
		}
	}()
	return func() { close(quit) }
}

// Sub returns a fresh scratch sub-directory.
func (w *W) Sub(name string) string {
	d := filepath.Join(w.Dir, name)
	os.RemoveAll(d)
	os.MkdirAll(d, 0o755)
	return d
}

// Guard runs fn and converts a panic on the calling goroutine into a returned string (with stack).
func Guard(fn func()) (panicked string) {
	defer func() {
		if r := recover(); r != nil {
			panicked = fmt.Sprintf("%v\n%s", r, debug.Stack())
		}
	}()
	fn()
	return ""
}
