package h

import (
	"fmt"
	"os"
)

// PhaseFunc is one process lifetime of a multi-process scenario (crash / restart histories).
type PhaseFunc func(args []string) int

var Phases = map[string]PhaseFunc{}

func RunPhase(args []string) int {
	if len(args) == 0 {
		fmt.Fprintln(os.Stderr, "phase: missing kind")
		return 3
	}
	f := Phases[args[0]]
	if f == nil {
		fmt.Fprintln(os.Stderr, "phase: unknown kind", args[0])
		return 3
	}
	return f(args[1:])
}
