//go:build race

package h

const RaceEnabled = true
