package h

import (
	"encoding/json"
	"os"
	"strings"
)

// Finding is one entry of /verif/known_findings.json (committed; never written at run time).
// status "open": a violation whose signature equals Signature (or starts with it when it ends in '*') is printed as
// KNOWN-FINDING and does not fail the check. status "fixed": documentation only, suppresses nothing.
type Finding struct {
	Property  string `json:"property"`
	Signature string `json:"signature"`
	Status    string `json:"status"`
	Commit    string `json:"commit,omitempty"`
	What      string `json:"what"`
}

type Findings []Finding

func LoadFindings(path string) Findings {
	b, err := os.ReadFile(path)
	if err != nil {
		return nil
	}
	var f Findings
	if json.Unmarshal(b, &f) != nil {
		return nil
	}
	return f
}

func (fs Findings) Match(prop, sig string) *Finding {
	for i := range fs {
		f := &fs[i]
		if f.Property != prop || f.Status != "open" {
			continue
		}
		if f.Signature == sig {
			return f
		}
		if strings.HasSuffix(f.Signature, "*") && strings.HasPrefix(sig, strings.TrimSuffix(f.Signature, "*")) {
			return f
		}
	}
	return nil
}
