package h

import (
	"os"
	"os/exec"
	"path/filepath"
	"syscall"
	"time"
)

// PhaseResult is what the parent learns about one child process lifetime.
type PhaseResult struct {
	ExitCode int
	TimedOut bool
	Stderr   string // tail
}

// SpawnPhase runs `<this binary> phase <kind> <args...>` as a child process with a generous wall-clock watchdog.
func SpawnPhase(dir, kind string, timeout time.Duration, env []string, args ...string) PhaseResult {
	return SpawnPhaseWrapped(dir, nil, kind, timeout, env, args...)
}

// SpawnPhaseWrapped runs the phase under a wrapper command (e.g. strace ... --), used by syscall-level monitors.
func SpawnPhaseWrapped(dir string, wrapper []string, kind string, timeout time.Duration, env []string, args ...string) PhaseResult {
	exe, _ := os.Executable()
	errPath := filepath.Join(dir, "phase.stderr")
	ef, _ := os.OpenFile(errPath, os.O_CREATE|os.O_WRONLY|os.O_TRUNC, 0o644)
	argv := append(append([]string{}, wrapper...), exe, "phase", kind)
	argv = append(argv, args...)
	cmd := exec.Command(argv[0], argv[1:]...)
	cmd.Stdout, cmd.Stderr = ef, ef
	cmd.Env = append(append(os.Environ(), "LOG_LEVEL=fatal"), env...)
	cmd.SysProcAttr = &syscall.SysProcAttr{Setpgid: true}
	res := PhaseResult{}
	if err := cmd.Start(); err != nil {
		ef.Close()
		res.ExitCode = -1
		res.Stderr = err.Error()
		return res
	}
	done := make(chan error, 1)
	go func() { done <- cmd.Wait() }()
	select {
	case <-done:
	case <-time.After(timeout):
		res.TimedOut = true
		cmd.Process.Signal(syscall.SIGQUIT)
		select {
		case <-done:
		case <-time.After(10 * time.Second):
			syscall.Kill(-cmd.Process.Pid, syscall.SIGKILL)
			<-done
		}
	}
	ef.Close()
	if cmd.ProcessState != nil {
		res.ExitCode = cmd.ProcessState.ExitCode()
	}
	res.Stderr = tailFile(errPath, 3000)
	return res
}

// CrashFrame exposes the crash-signature extraction for phase stderr tails.
func CrashFrame(tail string) string { return crashFrame(tail) }
