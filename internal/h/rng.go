// Package h is the harness shared by every property check: deterministic PRNG, worker-side case log,
// orchestrator (child processes, watchdogs, write-ahead in-flight record), evidence and known-findings handling.
package h

import (
	"hash/fnv"
	"math"
)

// Rng is a splitmix64 stream. Every random choice of every check derives from VERIF_SEED through it.
type Rng struct{ s uint64 }

func mix(z uint64) uint64 {
	z += 0x9e3779b97f4a7c15
	z = (z ^ (z >> 30)) * 0xbf58476d1ce4e5b9
	z = (z ^ (z >> 27)) * 0x94d049bb133111eb
	return z ^ (z >> 31)
}

// NewRng derives an independent stream from a seed and a path of integers (property, batch, case ...).
func NewRng(seed uint64, path ...uint64) *Rng {
	s := mix(seed ^ 0x5eed5eed5eed5eed)
	for _, p := range path {
		s = mix(s ^ mix(p+0x1234567))
	}
	return &Rng{s: s}
}

func StrKey(s string) uint64 {
	f := fnv.New64a()
	f.Write([]byte(s))
	return f.Sum64()
}

func (r *Rng) U64() uint64 {
	r.s += 0x9e3779b97f4a7c15
	z := r.s
	z = (z ^ (z >> 30)) * 0xbf58476d1ce4e5b9
	z = (z ^ (z >> 27)) * 0x94d049bb133111eb
	return z ^ (z >> 31)
}

// Fork returns a child stream that does not disturb the parent beyond one draw.
func (r *Rng) Fork() *Rng { return &Rng{s: mix(r.U64())} }

func (r *Rng) Intn(n int) int {
	if n <= 0 {
		return 0
	}
	return int(r.U64() % uint64(n))
}

// Range returns a value in [lo, hi].
func (r *Rng) Range(lo, hi int) int {
	if hi <= lo {
		return lo
	}
	return lo + r.Intn(hi-lo+1)
}

func (r *Rng) Bool() bool { return r.U64()&1 == 1 }

// Chance returns true with probability num/den.
func (r *Rng) Chance(num, den int) bool { return r.Intn(den) < num }

func (r *Rng) Float() float64 { return float64(r.U64()>>11) / float64(1<<53) }

func (r *Rng) Perm(n int) []int {
	p := make([]int, n)
	for i := range p {
		p[i] = i
	}
	for i := n - 1; i > 0; i-- {
		j := r.Intn(i + 1)
		p[i], p[j] = p[j], p[i]
	}
	return p
}

func Pick[T any](r *Rng, xs []T) T { return xs[r.Intn(len(xs))] }

// LogInt picks an integer in [lo,hi] with a log-uniform bias towards small values.
func (r *Rng) LogInt(lo, hi int) int {
	if hi <= lo {
		return lo
	}
	f := r.Float()
	v := float64(lo) * math.Pow(float64(hi)/math.Max(1, float64(lo)), f)
	if lo == 0 {
		v = math.Pow(float64(hi)+1, f) - 1
	}
	x := int(v)
	if x < lo {
		x = lo
	}
	if x > hi {
		x = hi
	}
	return x
}

func (r *Rng) Bytes(n int) []byte {
	b := make([]byte, n)
	for i := 0; i < n; i += 8 {
		v := r.U64()
		for j := 0; j < 8 && i+j < n; j++ {
			b[i+j] = byte(v >> (8 * j))
		}
	}
	return b
}
