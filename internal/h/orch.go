package h

import (
	"bufio"
	"bytes"
	"encoding/json"
	"fmt"
	"os"
	"os/exec"
	"path/filepath"
	"regexp"
	"sort"
	"strconv"
	"strings"
	"sync"
	"sync/atomic"
	"syscall"
	"time"
)

// Prop describes one property check.
type Prop struct {
	ID            string
	Level         string // evidence level: exploration | fault_enumeration
	Rule          string // how cases are generated and what makes one non-trivial/distinct
	Assumptions   []string
	Batches       func(tier string) int
	Run           func(w *W, batch int)
	Race          bool                            // workers run in the -race build
	Par           int                             // max parallel workers (0 = 16)
	Timeout       func(tier string) time.Duration // watchdog per worker lifetime (0 = 10 min)
	Exhaustive    func(tier string) bool
	MinNontrivial int // fewer distinct non-trivial cases than this => the run observed nothing => INCONCLUSIVE (default 2)
}

var Registry = map[string]*Prop{}

func Register(p *Prop) { Registry[p.ID] = p }

type violation struct {
	Batch, Idx int
	Sig        string
	Detail     json.RawMessage
	Desc       json.RawMessage
	Stderr     string
	Replay     string
	Known      string
}

type batchResult struct {
	evals   int
	held    int
	sigsNT  map[string]struct{}
	viols   []violation
	incs    []string
	cnt     map[string]int64
	sets    map[string]map[string]struct{}
	samples []json.RawMessage
	deaths  int
}

func verifRoot() string {
	if r := os.Getenv("VERIF_ROOT"); r != "" {
		return r
	}
	exe, _ := os.Executable()
	return filepath.Dir(filepath.Dir(exe))
}

// watchdogHits counts wall-clock watchdog expirations of this orchestrator run. A hang is never a violation by itself
// (inconclusive), but after maxWatchdogHits of them the run stops scheduling work and reports inconclusive (exit 2).
var watchdogHits atomic.Int64

const maxWatchdogHits = 3

// RunCheck is the orchestrator entry: runs all batches of a property, writes evidence, prints verdict lines.
// Returns the process exit code.
func RunCheck(id, tier string, seed uint64, replay string) int {
	p := Registry[id]
	if p == nil {
		fmt.Printf("unknown property %s\n", id)
		return 3
	}
	start := time.Now()
	root := verifRoot()
	scratch, err := os.MkdirTemp("", "verif."+id+".")
	if err != nil {
		fmt.Println("cannot create scratch dir:", err)
		return 3
	}
	defer os.RemoveAll(scratch)

	if replay != "" {
		return runReplay(p, root, scratch, replay)
	}

	nb := p.Batches(tier)
	par := p.Par
	if par <= 0 {
		par = 16
	}
	if v := os.Getenv("VERIF_PAR"); v != "" {
		if n, err := strconv.Atoi(v); err == nil && n > 0 {
			par = n
		}
	}
	results := make([]*batchResult, nb)
	sem := make(chan struct{}, par)
	var wg sync.WaitGroup
	for b := 0; b < nb; b++ {
		wg.Add(1)
		sem <- struct{}{}
		go func(b int) {
			defer wg.Done()
			defer func() { <-sem }()
			if watchdogHits.Load() >= maxWatchdogHits {
				// the workload keeps hanging: the remaining batches would each burn a full watchdog period
				results[b] = &batchResult{sigsNT: map[string]struct{}{}, cnt: map[string]int64{}, sets: map[string]map[string]struct{}{}, incs: []string{"batch not run: repeated watchdog expirations"}}
				return
			}
			results[b] = runBatch(p, root, scratch, tier, seed, b)
		}(b)
	}
	wg.Wait()

	// merge
	total := &batchResult{sigsNT: map[string]struct{}{}, cnt: map[string]int64{}, sets: map[string]map[string]struct{}{}}
	for _, r := range results {
		total.evals += r.evals
		total.held += r.held
		total.deaths += r.deaths
		for s := range r.sigsNT {
			total.sigsNT[s] = struct{}{}
		}
		for k, v := range r.cnt {
			total.cnt[k] += v
		}
		for k, s := range r.sets {
			t := total.sets[k]
			if t == nil {
				t = map[string]struct{}{}
				total.sets[k] = t
			}
			for v := range s {
				t[v] = struct{}{}
			}
		}
		total.viols = append(total.viols, r.viols...)
		total.incs = append(total.incs, r.incs...)
		if len(total.samples) < 6 {
			total.samples = append(total.samples, r.samples...)
		}
	}
	if len(total.samples) > 6 {
		total.samples = total.samples[:6]
	}

	// known findings
	kf := LoadFindings(filepath.Join(root, "known_findings.json"))
	newViol := 0
	knownSeen := map[string]int{}
	repDir := filepath.Join(root, "replays", id)
	for i := range total.viols {
		v := &total.viols[i]
		if f := kf.Match(id, v.Sig); f != nil {
			v.Known = f.What
			knownSeen[f.Signature+"\x00"+f.What]++
			continue
		}
		newViol++
		if newViol <= 25 {
			os.MkdirAll(repDir, 0o755)
			v.Replay = filepath.Join(repDir, fmt.Sprintf("%d-%s-b%d-c%d.json", seed, tier, v.Batch, v.Idx))
			rb, _ := json.MarshalIndent(map[string]any{
				"property": id, "seed": seed, "tier": tier, "batch": v.Batch, "case": v.Idx,
				"signature": v.Sig, "case_desc": v.Desc, "detail": v.Detail, "stderr_tail": v.Stderr,
				"replay_cmd": fmt.Sprintf("./run.sh %s --replay %s", id, v.Replay),
			}, "", " ")
			os.WriteFile(v.Replay, rb, 0o644)
		}
	}

	wall := time.Since(start).Seconds()
	minNT := p.MinNontrivial
	if minNT <= 0 {
		minNT = 2
	}
	cov := map[string]any{
		"evaluations":         total.evals,
		"distinct_nontrivial": len(total.sigsNT),
		"rule":                p.Rule,
		"samples":             total.samples,
		"held":                total.held,
		"inconclusive":        len(total.incs),
		"worker_deaths":       total.deaths,
		"batches":             nb,
		"counters":            total.cnt,
	}
	if len(total.incs) > 0 {
		m := map[string]int{}
		for _, s := range total.incs {
			m[s]++
		}
		cov["inconclusive_reasons"] = m
	}
	dist := map[string]int{}
	for k, s := range total.sets {
		dist[k] = len(s)
	}
	cov["distinct_sets"] = dist
	vals := map[string][]string{}
	for k, s := range total.sets {
		if len(s) <= 12 {
			for v := range s {
				vals[k] = append(vals[k], v)
			}
			sort.Strings(vals[k])
		}
	}
	cov["distinct_values"] = vals
	if p.Exhaustive != nil && p.Exhaustive(tier) && newViol == 0 && len(total.incs) == 0 {
		cov["exhaustive"] = true
	}
	if len(knownSeen) > 0 {
		cov["known_findings_seen"] = len(knownSeen)
	}
	if len(total.samples) == 0 {
		cov["samples"] = []any{"no sample recorded"}
	}
	ev := map[string]any{
		"property_id": id, "tier": tier, "seed": seed, "level": p.Level,
		"coverage": cov, "assumptions": p.Assumptions, "wall_s": wall, "violations": newViol,
	}
	eb, _ := json.MarshalIndent(ev, "", " ")
	os.MkdirAll(filepath.Join(root, "evidence"), 0o755)
	os.WriteFile(filepath.Join(root, "evidence", id+".json"), eb, 0o644)

	fmt.Printf("%s tier=%s seed=%d: cases=%d held=%d distinct_nontrivial=%d violations=%d known=%d inconclusive=%d wall=%.1fs\n",
		id, tier, seed, total.evals, total.held, len(total.sigsNT), newViol, len(total.viols)-newViol, len(total.incs), wall)
	keys := make([]string, 0, len(total.cnt))
	for k := range total.cnt {
		keys = append(keys, k)
	}
	sort.Strings(keys)
	for _, k := range keys {
		fmt.Printf("  %s=%d", k, total.cnt[k])
	}
	if len(keys) > 0 {
		fmt.Println()
	}
	for k := range knownSeen {
		parts := strings.SplitN(k, "\x00", 2)
		fmt.Printf("KNOWN-FINDING: property=%s %s [%s] (seen %d times)\n", id, parts[1], parts[0], knownSeen[k])
	}
	printed := 0
	for _, v := range total.viols {
		if v.Known != "" {
			continue
		}
		if v.Replay != "" {
			fmt.Printf("VIOLATION property=%s replay=%s\n", id, v.Replay)
			if printed < 5 {
				fmt.Printf("  signature: %s\n  detail: %.600s\n", v.Sig, string(v.Detail))
			}
			printed++
		}
	}
	if newViol > 25 {
		fmt.Printf("  (%d further violations not written out)\n", newViol-25)
	}
	if newViol > 0 {
		return 1
	}
	if len(total.incs) > 0 {
		fmt.Printf("INCONCLUSIVE cases: %d (see evidence)\n", len(total.incs))
	}
	if watchdogHits.Load() >= maxWatchdogHits {
		fmt.Printf("INCONCLUSIVE property=%s: the workload hung %d times (watchdog); goroutine dumps are under replays/%s/watchdog-*.txt\n", id, watchdogHits.Load(), id)
		return 2
	}
	if len(total.sigsNT) < minNT {
		fmt.Printf("INCONCLUSIVE property=%s: monitors observed too little (%d distinct non-trivial cases)\n", id, len(total.sigsNT))
		return 2
	}
	return 0
}

func workerBin(p *Prop, root string) string {
	// both binaries sit next to the running orchestrator (bin/ or an alternative build directory, see run.sh VERIF_REPO)
	dir := filepath.Join(root, "bin")
	if exe, err := os.Executable(); err == nil {
		dir = filepath.Dir(exe)
	}
	if p.Race {
		return filepath.Join(dir, "vcheck-race")
	}
	return filepath.Join(dir, "vcheck")
}

func runBatch(p *Prop, root, scratch, tier string, seed uint64, b int) *batchResult {
	res := &batchResult{sigsNT: map[string]struct{}{}, cnt: map[string]int64{}, sets: map[string]map[string]struct{}{}}
	from := 0
	to := 10 * time.Minute
	if p.Timeout != nil {
		if t := p.Timeout(tier); t > 0 {
			to = t
		}
	}
	for life := 0; life < 40; life++ {
		dir := filepath.Join(scratch, fmt.Sprintf("b%d.%d", b, life))
		os.MkdirAll(dir, 0o755)
		out := filepath.Join(dir, "result.jsonl")
		errPath := filepath.Join(dir, "stderr.txt")
		ef, _ := os.Create(errPath)
		cmd := exec.Command(workerBin(p, root), "worker", p.ID, tier, strconv.FormatUint(seed, 10), strconv.Itoa(b), strconv.Itoa(from), "-1", dir, out)
		cmd.Stdout = ef
		cmd.Stderr = ef
		cmd.Env = append(os.Environ(), "LOG_LEVEL=fatal", "GORACE=halt_on_error=0 log_path="+filepath.Join(dir, "race"))
		cmd.SysProcAttr = &syscall.SysProcAttr{Setpgid: true}
		timedOut := false
		if err := cmd.Start(); err != nil {
			res.incs = append(res.incs, "worker could not start: "+err.Error())
			ef.Close()
			return res
		}
		done := make(chan error, 1)
		go func() { done <- cmd.Wait() }()
		var werr error
		select {
		case werr = <-done:
		case <-time.After(to):
			timedOut = true
			watchdogHits.Add(1)
			cmd.Process.Signal(syscall.SIGQUIT) // goroutine dump into stderr file
			select {
			case werr = <-done:
			case <-time.After(20 * time.Second):
				syscall.Kill(-cmd.Process.Pid, syscall.SIGKILL)
				werr = <-done
			}
		}
		syscall.Kill(-cmd.Process.Pid, syscall.SIGKILL) // any stray grandchildren
		ef.Close()
		finished, lastIdx := parseResult(out, b, res)
		collectRaces(dir, b, res)
		if finished {
			os.RemoveAll(dir)
			return res
		}
		// the worker died or hung: identify the in-flight case from the write-ahead file
		res.deaths++
		tail := tailFile(errPath, 6000)
		var wal struct {
			I    int             `json:"i"`
			Desc json.RawMessage `json:"desc"`
		}
		wb, rerr := os.ReadFile(out + ".wal")
		if rerr == nil {
			rerr = json.Unmarshal(wb, &wal)
		}
		if rerr != nil || wal.I <= lastIdx {
			// died outside any case
			if timedOut {
				res.incs = append(res.incs, "watchdog outside a case")
			} else {
				res.evals++
				res.viols = append(res.viols, violation{Batch: b, Idx: lastIdx + 1, Sig: p.ID + ":worker-died-outside-case:" + crashFrame(tail),
					Detail: jsonStr(fmt.Sprintf("worker exit: %v", werr)), Stderr: tail})
			}
			os.RemoveAll(dir)
			return res
		}
		res.evals++
		if timedOut {
			res.incs = append(res.incs, "watchdog")
			// keep the goroutine dump for triage
			os.MkdirAll(filepath.Join(root, "replays", p.ID), 0o755)
			os.WriteFile(filepath.Join(root, "replays", p.ID, fmt.Sprintf("watchdog-%d-b%d-c%d.txt", seed, b, wal.I)), []byte(string(wal.Desc)+"\n\n"+tailFile(errPath, 600000)), 0o644)
		} else {
			res.viols = append(res.viols, violation{Batch: b, Idx: wal.I, Sig: p.ID + ":process-died:" + crashFrame(tail),
				Detail: jsonStr(fmt.Sprintf("worker process died while this case was in flight (%v)", werr)), Desc: wal.Desc, Stderr: tail})
		}
		from = wal.I + 1
		os.RemoveAll(dir)
		if watchdogHits.Load() >= maxWatchdogHits {
			res.incs = append(res.incs, "batch abandoned: repeated watchdog expirations")
			return res
		}
	}
	res.incs = append(res.incs, "too many worker deaths in one batch")
	return res
}

func jsonStr(s string) json.RawMessage { b, _ := json.Marshal(s); return b }

func tailFile(path string, n int) string {
	b, err := os.ReadFile(path)
	if err != nil {
		return ""
	}
	// prefer the region around the first panic/fatal line
	for _, marker := range []string{"panic: ", "fatal error: ", "\"level\":\"fatal\"", "\"level\":\"panic\""} {
		if i := bytes.Index(b, []byte(marker)); i >= 0 {
			e := i + n
			if e > len(b) {
				e = len(b)
			}
			return string(b[i:e])
		}
	}
	if len(b) > n {
		b = b[len(b)-n:]
	}
	return string(b)
}

var frameRe = regexp.MustCompile(`(?m)^(github\.com/ozontech/seq-db/[^\s(]+(?:\([^)]*\))?[^\s(]*)\(`)

// crashFrame extracts the innermost seq-db function of the first goroutine in a crash dump (stable part of a signature).
func crashFrame(tail string) string {
	if m := regexp.MustCompile(`"(?:msg|message)":"([^"]{0,80})`).FindStringSubmatch(tail); m != nil && strings.Contains(tail, `"level":"fatal"`) {
		return "fatal:" + m[1]
	}
	for _, m := range frameRe.FindAllStringSubmatch(tail, -1) {
		f := strings.TrimPrefix(m[1], "github.com/ozontech/seq-db/")
		if strings.HasPrefix(f, "logger.") || strings.HasPrefix(f, "util.Recover") {
			continue
		}
		return f
	}
	return "unknown"
}

func parseResult(path string, b int, res *batchResult) (finished bool, lastIdx int) {
	lastIdx = -1
	f, err := os.Open(path)
	if err != nil {
		return false, -1
	}
	defer f.Close()
	sc := bufio.NewScanner(f)
	sc.Buffer(make([]byte, 1<<20), 64<<20)
	var lastCnt map[string]int64
	var lastSets map[string][]string
	for sc.Scan() {
		var r Rec
		if json.Unmarshal(sc.Bytes(), &r) != nil {
			continue
		}
		switch r.T {
		case "E":
			res.evals++
			lastIdx = r.I
			switch r.V {
			case VHeld:
				res.held++
				if r.NT {
					res.sigsNT[r.Sig] = struct{}{}
				}
			case VViol:
				res.viols = append(res.viols, violation{Batch: b, Idx: r.I, Sig: r.Sig, Detail: r.Detail})
			case VInc:
				res.incs = append(res.incs, r.Sig)
			}
		case "C":
			lastCnt, lastSets = r.Cnt, r.Sets
		case "S":
			if len(res.samples) < 3 {
				res.samples = append(res.samples, r.Detail)
			}
		case "F":
			finished = true
		}
	}
	for k, v := range lastCnt {
		res.cnt[k] += v
	}
	for k, l := range lastSets {
		s := res.sets[k]
		if s == nil {
			s = map[string]struct{}{}
			res.sets[k] = s
		}
		for _, v := range l {
			s[v] = struct{}{}
		}
	}
	return finished, lastIdx
}

var raceFuncRe = regexp.MustCompile(`^  (\S+)\(`)

// collectRaces parses race detector logs of one worker lifetime; every distinct report becomes a violation.
func collectRaces(dir string, b int, res *batchResult) {
	files, _ := filepath.Glob(filepath.Join(dir, "race.*"))
	seen := map[string]bool{}
	for _, fn := range files {
		data, err := os.ReadFile(fn)
		if err != nil {
			continue
		}
		blocks := strings.Split(string(data), "WARNING: DATA RACE")
		for _, blk := range blocks[1:] {
			res.cnt["race_reports"]++
			// split into the two access stacks
			lines := strings.Split(blk, "\n")
			var stacks [][]string
			var cur []string
			inAccess := false
			for _, ln := range lines {
				if strings.HasPrefix(ln, "Read at") || strings.HasPrefix(ln, "Write at") || strings.HasPrefix(ln, "Previous read at") || strings.HasPrefix(ln, "Previous write at") ||
					strings.HasPrefix(ln, "Atomic") || strings.HasPrefix(ln, "Previous atomic") {
					if inAccess {
						stacks = append(stacks, cur)
					}
					cur, inAccess = nil, true
					continue
				}
				if strings.HasPrefix(ln, "Goroutine ") || strings.HasPrefix(ln, "==================") {
					if inAccess {
						stacks = append(stacks, cur)
					}
					inAccess = false
					continue
				}
				if inAccess {
					if m := raceFuncRe.FindStringSubmatch(ln); m != nil {
						cur = append(cur, m[1])
					}
				}
			}
			if inAccess {
				stacks = append(stacks, cur)
			}
			var fr []string
			for _, st := range stacks {
				f := "unknown"
				for _, fn := range st {
					if strings.Contains(fn, "ozontech/seq-db/") {
						f = strings.TrimPrefix(fn, "github.com/ozontech/seq-db/")
						break
					}
				}
				if f == "unknown" && len(st) > 0 {
					f = st[0]
				}
				fr = append(fr, f)
			}
			sort.Strings(fr)
			sig := "race:" + strings.Join(fr, "|")
			if seen[sig] {
				continue
			}
			seen[sig] = true
			if len(blk) > 5000 {
				blk = blk[:5000]
			}
			res.evals++
			res.viols = append(res.viols, violation{Batch: b, Idx: -1, Sig: sig, Detail: jsonStr("WARNING: DATA RACE" + blk)})
		}
	}
}

func runReplay(p *Prop, root, scratch, replay string) int {
	var rp struct {
		Seed  uint64 `json:"seed"`
		Tier  string `json:"tier"`
		Batch int    `json:"batch"`
		Case  int    `json:"case"`
	}
	b, err := os.ReadFile(replay)
	if err != nil || json.Unmarshal(b, &rp) != nil {
		fmt.Println("cannot read replay file", replay)
		return 3
	}
	dir := filepath.Join(scratch, "replay")
	os.MkdirAll(dir, 0o755)
	out := filepath.Join(dir, "result.jsonl")
	cmd := exec.Command(workerBin(p, root), "worker", p.ID, rp.Tier, strconv.FormatUint(rp.Seed, 10), strconv.Itoa(rp.Batch), "0", strconv.Itoa(rp.Case), dir, out)
	cmd.Stdout, cmd.Stderr = os.Stderr, os.Stderr
	cmd.Env = append(os.Environ(), "LOG_LEVEL=fatal", "VERIF_REPLAY=1", "GORACE=halt_on_error=0")
	werr := cmd.Run()
	res := &batchResult{sigsNT: map[string]struct{}{}, cnt: map[string]int64{}, sets: map[string]map[string]struct{}{}}
	fin, _ := parseResult(out, rp.Batch, res)
	if !fin {
		fmt.Printf("replay: worker died (%v) => violation reproduced (process death)\n", werr)
		fmt.Printf("VIOLATION property=%s replay=%s\n", p.ID, replay)
		return 1
	}
	for _, v := range res.viols {
		fmt.Printf("replay: case %d violated: %s\n%s\n", v.Idx, v.Sig, string(v.Detail))
		fmt.Printf("VIOLATION property=%s replay=%s\n", p.ID, replay)
		return 1
	}
	fmt.Printf("replay: case held (evals=%d, inconclusive=%d)\n", res.evals, len(res.incs))
	return 0
}
