//go:build !race

package h

const RaceEnabled = false
